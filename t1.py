import sys, time
sys.path.insert(0, '/verif')
from pyvc.frontend import Program
from pyvc.specs import REG
from pyvc import verify, solve
import contracts.all
prog = Program()
t0=time.time()
key = sys.argv[1] if len(sys.argv)>1 else 'Core.SystemManager.add_system'
c = REG.contracts[key]
allobs=[]
for mode in c.modes:
  for case in (c.cases or [None]):
    if case is not None and case.get('mode') not in (None, mode): continue
    rep = verify.verify_function(prog, REG, key, mode=mode, case=case)
    print('paths', rep.paths, 'obs', len(rep.obs), 'err', rep.error, time.time()-t0)
    allobs += rep.obs
solve.discharge(allobs, timeout_ms=int(sys.argv[2]) if len(sys.argv)>2 else 20000)
for ob in allobs:
    print(ob.result, f'{ob.time:.2f}', ob.name, ob.props)
solve.close()
