import sys, time
sys.path.insert(0, '/verif')
from pyvc.frontend import Program
from pyvc.specs import REG
from pyvc import verify, solve
import contracts.core
prog = Program()
t0=time.time()
rep = verify.verify_function(prog, REG, sys.argv[1] if len(sys.argv)>1 else 'Core.SystemManager.add_system')
print('paths', rep.paths, 'obs', len(rep.obs), 'err', rep.error, time.time()-t0)
solve.discharge(rep.obs, timeout_ms=20000)
for ob in rep.obs:
    print(ob.result, f'{ob.time:.2f}', ob.name, ob.props)
solve.close()
