"""Environment / agent / class histories (C03, C04, C13, C20; spatial parts of C08, C12 reuse the world setup).

ops (JSON-able):
  ('world', kind, w, h, d, wrap)      kind: plain | space | discrete | line | grid     (first op; default plain)
  ('model', k)                         switch to model k (several models alive at once)
  ('mk', name, cls_idx, tag|None, [ctype idx...])   create an agent object `name` of class K[cls_idx]
  ('add', name[, x, y, z])  ('remove', id)  ('get', id, strict)
  ('attach', name, ctype)  ('detach', name, ctype)         instance components
  ('register', name, ctype)  ('deregister', name, ctype)  manual scheduler calls
  ('query', [ctype idx...], tag|None|'none')               get_agents / get_random_agent / shuffle
  ('cadd', cls_idx, ctype)  ('cremove', cls_idx, ctype)  ('ctag', cls_idx, value)  ('cquery', cls_idx)
The oracle keeps its own bookkeeping (never reads the library's containers to decide what is expected).
"""
import itertools
import random
import sys

sys.path.insert(0, '/verif')
from pyvc import specs as S      # noqa: E402
from replayers import monitor    # noqa: E402

NCT = 5      # CT2: falsy instances (__len__ 0); CT3: derived from CT0; CT4: derived from PositionComponent (exact-type
             # bookkeeping must not confuse a component with one of a related class)
NK = 5


def _ids(xs):
    """identifiers for a message; never fails on a foreign element (the message describes a violation)"""
    return [getattr(a, 'id', repr(a)) for a in xs]


def _cids(xs):
    return [getattr(getattr(c, 'agent', None), 'id', repr(c)) for c in xs]


class World:
    pass


def make_world():
    from ECAgent.Core import Model, Agent, Component
    w = World()
    w.CT = []
    for k in range(NCT):
        ns = {'_verif_user': True, '__slots__': ()}
        if k == 2:
            ns['__len__'] = lambda self: 0          # a container-like component that is falsy (identity equality kept)
        if k == 1:
            import abc
            w.CT.append(abc.ABCMeta('CT1', (Component, abc.ABC), ns))     # a component class whose metaclass is not `type`
            continue
        if k == 4:
            from ECAgent.Environments import PositionComponent
            w.CT.append(type('CT4', (PositionComponent,), {'_verif_user': True}))
            continue
        w.CT.append(type(f'CT{k}', ((w.CT[0],) if k == 3 else (Component,)), ns))
    # every agent class is built from ONE namespace dict (a species-template factory): what the metaclass keeps
    # per class must not live in, or be taken from, the namespace the caller handed in
    w.NS = {'_verif_user': True}
    K0 = type('K0', (Agent,), w.NS)
    K1 = type('K1', (K0,), w.NS)
    K2 = type('K2', (K0,), w.NS)
    K3 = type('K3', (K1,), w.NS)
    # an agent class with its own truth value (e.g. "alive"): falsy all the time - the library must never ask
    K4 = type('K4', (Agent,), {'_verif_user': True, '__bool__': lambda self: False})
    w.K = [K0, K1, K2, K3, K4]
    w.kparent = {1: 0, 2: 0, 3: 1}     # K4 has no parent among the K classes
    w.models = {}
    w.kind = ('plain', 0, 0, 0, False)
    w.cur = 0
    w.objs = {}          # name -> agent object
    w.ocomps = {}        # name -> {ctype idx: component}   (oracle)
    w.otag = {}          # name -> expected tag
    w.omodel = {}        # name -> model index
    w.resident = {}      # model idx -> [names] in joining order
    w.ccomps = {k: {} for k in range(NK)}     # oracle: class components
    w.ctag = {k: 0 for k in range(NK)}
    w.Model = Model
    w.opos = {}          # name -> expected (x, y, z) while resident in a spatial world
    return w


def model(w, k=None):
    k = w.cur if k is None else k
    if k not in w.models:
        m = w.Model(seed=7 + k)
        kind, W, H, D, wrap = w.kind
        if kind != 'plain':
            import ECAgent.Environments as E
            if getattr(w, 'iter_override', False):
                # user worlds that iterate in an order of their own (positional queries do not go through iteration)
                E = type('UserWorlds', (), {n_: type('U' + n_, (getattr(E, n_),), {
                    '_verif_user': True,
                    '__iter__': lambda self: iter(sorted(self.agents.values(), key=lambda a: a.id, reverse=True))})
                    for n_ in ('SpaceWorld', 'DiscreteWorld', 'LineWorld', 'GridWorld')})
            if kind == 'space':
                env = E.SpaceWorld(m, W, H, D, wrap_env=wrap)
            elif kind == 'discrete':
                env = E.DiscreteWorld(m, W, H, D, wrap_env=wrap)
            elif kind == 'line':
                env = E.LineWorld(m, W, wrap_env=wrap)
            else:
                env = E.GridWorld(m, W, H, wrap_env=wrap)
            m.set_environment(env)
        w.models[k] = m
        w.resident[k] = []
    return w.models[k]


def expected_pool(w, k, ct):
    out = []
    for name in w.resident[k]:
        c = w.ocomps[name].get(ct)
        if c is not None:
            out.append(c)
    return out


def check_listings(w, out, where):
    """C03/C04 observers against the oracle's bookkeeping, for every model alive."""
    for k, m in w.models.items():
        env = m.environment
        names = w.resident[k]
        objs = [w.objs[n] for n in names]
        if len(env) != len(objs):
            out.append(('C04', f'{where}: len(environment)={len(env)} but {len(objs)} agents are live'))
        it = list(env) if not getattr(w, 'iter_override', False) else list(objs)
        if len(it) != len(objs) or any(a is not b for a, b in zip(it, objs)):
            out.append(('C04', f'{where}: iteration yields {_ids(it)}, expected {_ids(objs)}'))
        ga = env.get_agents()
        if len(ga) != len(objs) or any(a is not b for a, b in zip(ga, objs)):
            out.append(('C04', f'{where}: get_agents() yields {_ids(ga)}, expected {_ids(objs)}'))
        # the caller owns the list it was given: scribbling on it must not show in any later answer
        ga.reverse()
        ga.append(None)
        for o in objs:
            if env.get_agent(o.id) is not o:
                out.append(('C04', f'{where}: lookup of live agent {o.id} failed'))
        for ct in range(NCT):
            exp = expected_pool(w, k, ct)
            got = m.systems[w.CT[ct]]
            if not exp:
                if got is not None:
                    out.append(('C03', f'{where}: model {k} lists {len(got)} CT{ct} components, expected none'))
            elif got is None or len(got) != len(exp) or any(a is not b for a, b in zip(got, exp)):
                out.append(('C03', f'{where}: model {k} CT{ct} listing is '
                                   f'{None if got is None else _cids(got)}, '
                                   f'expected {_cids(exp)}'))


def check_positions(w, out, where):
    if w.kind[0] == 'plain':
        return
    from ECAgent.Environments import PositionComponent
    _, W, H, D, wrap = w.kind
    off = 1 if w.kind[0] in ('discrete', 'line', 'grid') else 0
    for k in w.resident:
        for n in w.resident[k]:
            o = w.objs[n]
            pc = o[PositionComponent]
            if pc is None:
                out.append(('C08', f'{where}: resident {n} has no position'))
                continue
            got = (pc.x, pc.y, pc.z)
            if got != tuple(w.opos[n]):
                out.append(('C08', f'{where}: {n} is at {got}, expected {tuple(w.opos[n])}'))
            for v, e, ax in zip(got, (W, H, D), 'xyz'):
                if e > 0 and not (0 <= v <= e - off):
                    out.append(('C08', f'{where}: {n} is outside the world on axis {ax}: {v} (extent {e})'))


def check_classes(w, out, where):
    for k in range(len(w.K)):
        cls = w.K[k]
        exp = w.ccomps[k]
        if len(cls) != len(exp):
            out.append(('C20', f'{where}: class K{k} reports {len(cls)} class components, expected {len(exp)}'))
        for ct in range(NCT):
            got = cls[w.CT[ct]]
            if got is not exp.get(ct):
                out.append(('C20', f'{where}: class K{k} component CT{ct} visible as {got}, expected {exp.get(ct)}'))
            if (w.CT[ct] in cls) != (ct in exp):
                out.append(('C20', f'{where}: CT{ct} in K{k} is {w.CT[ct] in cls}, expected {ct in exp}'))
        if cls.tag != w.ctag[k]:
            out.append(('C20', f'{where}: default tag of K{k} is {cls.tag}, expected {w.ctag[k]}'))
    for name, o in w.objs.items():
        for ct in range(NCT):
            if o[w.CT[ct]] is not w.ocomps[name].get(ct):
                out.append(('C20', f'{where}: instance {name} component CT{ct} changed'))
        if o.tag != w.otag[name]:
            out.append(('C20', f'{where}: instance {name} has tag {o.tag}, expected {w.otag[name]}'))


def run_history(ops, props=None):
    from ECAgent.Core import (DuplicateAgentError, AgentNotFoundError, ComponentNotFoundError)
    w = make_world()
    w.iter_override = tuple(props or ()) == ('C12',)
    out = []
    for step, op in enumerate(ops):
        kind = op[0]
        where = f'after op {step} {op!r}'
        if kind == 'world':
            w.kind = tuple(op[1:6])
            continue
        m = model(w)
        env = m.environment
        if kind == 'model':
            w.cur = op[1]
            model(w)
            continue
        elif kind == 'mk':
            _, name, ci, tag, cts = op
            if tag is not None:
                tag = int(str(tag))                   # a fresh int object (identity differs from equal constants)
                if tag == 3:
                    import numpy as np
                    tag = np.int64(3)                 # a tag taken from a numpy array: an explicit tag all the same
            o = w.K[ci](name.split('#')[0], m) if tag is None else w.K[ci](name.split('#')[0], m, tag)
            w.objs[name] = o
            w.ocomps[name] = {}
            w.otag[name] = w.ctag[ci] if tag is None else tag
            w.omodel[name] = w.cur
            if o.tag != w.otag[name]:
                out.append(('C20', f'{where}: new {name} of class K{ci} has tag {o.tag}, expected {w.otag[name]}'))
            if len(o) != 0:
                out.append(('C20', f'{where}: new instance already has components'))
            for ct in cts:
                c = w.CT[ct](o, m)
                o.add_component(c)
                w.ocomps[name][ct] = c
        elif kind == 'add':
            name = op[1]
            o = w.objs.get(name)
            if o is None:
                continue
            k = w.cur
            spatial = w.kind[0] != 'plain'
            pos = tuple(op[2:5]) if len(op) >= 5 else (0, 0, 0)
            if len(op) > 5 and op[5] == 'u8':
                import numpy as np
                pos = tuple(np.uint8(v) for v in pos)      # coordinates read from an unsigned numpy array
            taken = any(w.objs[n].id == o.id for n in w.resident[k])
            elsewhere = any(name in w.resident[j] for j in w.resident if j != k) or w.omodel[name] != k
            if elsewhere and not taken:
                continue        # an agent lives in at most one environment of its own model (stated assumption)
            oob = False
            if spatial:
                _, W, H, D, _wr = w.kind
                off = 1 if w.kind[0] in ('discrete', 'line', 'grid') else 0
                for p, e in zip(pos, (W, H, D)):
                    if e > 0 and (p > e - off or p < 0):
                        oob = True
            before = monitor.fingerprint((env.agents, m.systems.component_pools, o.components))
            try:
                if spatial:
                    env.add_agent(o, *pos)
                else:
                    env.add_agent(o)
                if taken:
                    out.append(('C04', f'{where}: agent with a taken identifier was accepted'))
                elif oob:
                    out.append(('C04', f'{where}: out-of-bounds placement {pos} was accepted'))
                else:
                    w.resident[k].append(name)
                    if spatial:
                        w.opos[name] = tuple(pos)
            except DuplicateAgentError:
                if not taken or oob:
                    out.append(('C04', f'{where}: DuplicateAgentError but identifier free / placement out of bounds'))
                if monitor.fingerprint((env.agents, m.systems.component_pools, o.components)) != before:
                    out.append(('C04', f'{where}: rejected add left a trace'))
            except ValueError as ex:
                # the joiner already carried a position component (op 'attachpos'): an undocumented failure; whatever
                # the environment decided, its listings must agree with who is resident afterwards
                if env.agents.get(o.id) is o and name not in w.resident[k]:
                    w.resident[k].append(name)
                    if spatial:
                        from ECAgent.Environments import PositionComponent
                        pc = o[PositionComponent]
                        w.opos[name] = (pc.x, pc.y, pc.z)
            except Exception as ex:
                if type(ex) is not Exception or not oob:
                    out.append(('C04', f'{where}: unexpected {type(ex).__name__}: {ex}'))
                if monitor.fingerprint((env.agents, m.systems.component_pools, o.components)) != before:
                    out.append(('C04', f'{where}: rejected placement left a trace'))
        elif kind == 'remove':
            aid = op[1]
            k = w.cur
            names = [n for n in w.resident[k] if w.objs[n].id == aid]
            before = monitor.fingerprint((env.agents, m.systems.component_pools))
            try:
                env.remove_agent(aid)
                if not names:
                    out.append(('C04', f'{where}: removal of unknown id accepted'))
                else:
                    w.resident[k].remove(names[0])
                    w.opos.pop(names[0], None)
                    if w.kind[0] != 'plain':
                        from ECAgent.Environments import PositionComponent
                        if PositionComponent in w.objs[names[0]]:
                            out.append(('C08', f'{where}: leaving the world did not drop the position'))
            except AgentNotFoundError:
                if names:
                    out.append(('C04', f'{where}: removal of a present agent failed'))
                if monitor.fingerprint((env.agents, m.systems.component_pools)) != before:
                    out.append(('C04', f'{where}: rejected removal left a trace'))
            except Exception as ex:
                out.append(('C04', f'{where}: removing a present agent raised {type(ex).__name__}: {ex}'))
                if props and 'C13' in props and names and aid in env.agents:
                    continue          # the queries go on: a removal that failed must not have changed who is listed, or where
                return out
        elif kind == 'remove_alias':
            # leaving through the deprecated camelCase alias must behave like remove_agent
            aid = op[1]
            k = w.cur
            names = [n for n in w.resident[k] if w.objs[n].id == aid]
            import warnings
            try:
                with warnings.catch_warnings():
                    warnings.simplefilter('ignore')
                    env.removeAgent(aid)
                if names:
                    w.resident[k].remove(names[0])
                    w.opos.pop(names[0], None)
                else:
                    out.append(('C04', f'{where}: removal of unknown id accepted'))
            except AgentNotFoundError:
                if names:
                    out.append(('C04', f'{where}: removal of a present agent failed'))
            except Exception as ex:
                out.append(('C04', f'{where}: removing a present agent raised {type(ex).__name__}: {ex}'))
                out.append(('C03', f'{where}: removing a present agent raised {type(ex).__name__}: {ex}'))
                return out
        elif kind == 'envcls':
            from ECAgent.Core import Environment
            import ECAgent.Environments as E
            base = {'plain': Environment, 'space': E.SpaceWorld, 'grid': E.GridWorld}[op[1]]
            Sub = type('EnvSub', (base,), {})
            Sub.tag = op[2]
            args = {'plain': (m,), 'space': (m, 3.0, 3.0), 'grid': (m, 3, 3)}[op[1]]
            e = Sub(*args)
            if e.tag != op[2]:
                out.append(('C20', f'{where}: environment of a class with default tag {op[2]} has tag {e.tag}'))
            if base.tag == op[2] and op[2] != 0:
                out.append(('C20', f'{where}: default tag of {base.__name__} changed through a subclass'))
        elif kind == 'get':
            aid, strict = op[1], op[2]
            k = w.cur
            names = [n for n in w.resident[k] if w.objs[n].id == aid]
            before = monitor.fingerprint((env.agents, m.systems.component_pools))
            try:
                r = env.get_agent(aid, strict)
                if names and r is not w.objs[names[0]]:
                    out.append(('C04', f'{where}: lookup returned the wrong agent'))
                if not names and (r is not None or strict):
                    out.append(('C04', f'{where}: lookup of unknown id returned {r}'))
            except AgentNotFoundError:
                if names or not strict:
                    out.append(('C04', f'{where}: AgentNotFoundError for a live id / non-strict lookup'))
            if monitor.fingerprint((env.agents, m.systems.component_pools)) != before:
                out.append(('C04', f'{where}: lookup changed the environment'))
        elif kind == 'cpos':
            # a class component of the exact type PositionComponent on the agents' class: an instance's own position
            # (and every other own component) must still be the one that counts
            from ECAgent.Environments import PositionComponent
            cls = w.K[op[1]]
            if PositionComponent not in cls:
                pc_ = PositionComponent(None, m, 9, 9, 9)
                cls.add_class_component(pc_)
                w.ccomps[op[1]]['pos'] = pc_
        elif kind == 'attachpos':
            from ECAgent.Environments import PositionComponent
            o = w.objs.get(op[1])
            if o is not None and PositionComponent not in o:
                o.add_component(PositionComponent(o, m, 0, 0, 0))
        elif kind in ('attach', 'detach'):
            name, ct = op[1], op[2]
            o = w.objs.get(name)
            if o is None:
                continue
            before = monitor.fingerprint(o.components)
            try:
                if kind == 'attach':
                    c = w.CT[ct](o, m)
                    o.add_component(c)
                    if ct in w.ocomps[name]:
                        out.append(('C20', f'{where}: duplicate component accepted'))
                    w.ocomps[name][ct] = c
                else:
                    o.remove_component(w.CT[ct])
                    if ct not in w.ocomps[name]:
                        out.append(('C20', f'{where}: detaching an absent component accepted'))
                    w.ocomps[name].pop(ct, None)
            except (ValueError, ComponentNotFoundError):
                if monitor.fingerprint(o.components) != before:
                    out.append(('C20', f'{where}: rejected component edit left a trace'))
        elif kind in ('register', 'deregister'):
            name, ct = op[1], op[2]
            c = w.ocomps.get(name, {}).get(ct)
            if c is None:
                continue
            try:
                getattr(m.systems, kind + '_component')(c)
            except KeyError:
                pass
        elif kind == 'query':
            cts, tag = op[1], op[2]
            k = w.cur
            tmpl = [w.CT[c] for c in cts]
            objs = [w.objs[n] for n in w.resident[k]]
            exp = [o for n, o in zip(w.resident[k], objs) if all(c in w.ocomps[n] for c in cts)
                   and (tag == 'none' or w.otag[n] == tag)]
            kw = {} if tag == 'none' else {'tag': int(str(tag))}
            if tag == 3 or tag == 1:
                import numpy as np
                kw = {'tag': np.int64(tag) if tag == 3 else np.uint8(tag)}     # a tag read from a numpy array filters all the same
            before = monitor.fingerprint((env.agents, m.systems.component_pools))
            got = env.get_agents(*tmpl, **kw)
            if len(got) != len(exp) or any(a is not b for a, b in zip(got, exp)):
                out.append(('C13', f'{where}: get_agents -> {_ids(got)}, expected {_ids(exp)}'))
            if got is env.agents or any(got is x for x in (env.agents.values(),)):
                out.append(('C13', f'{where}: get_agents returned a live view'))
            got.append(None)
            got2 = env.get_agents(*tmpl, **kw)
            if len(got2) != len(exp):
                out.append(('C13', f'{where}: the returned list is not independent of the environment'))
            r = env.get_random_agent(*tmpl, **kw)
            if (r is None) != (not exp) or (r is not None and not any(r is e for e in exp)):
                out.append(('C13', f'{where}: get_random_agent -> {getattr(r, "id", None)}, candidates {_ids(exp)}'))
            sh = env.shuffle(*tmpl, **kw)
            if sorted(map(id, sh)) != sorted(map(id, exp)):
                out.append(('C13', f'{where}: shuffle -> {_ids(sh)}, expected a permutation of {_ids(exp)}'))
            if monitor.fingerprint((env.agents, m.systems.component_pools)) != before:
                out.append(('C13', f'{where}: a query altered the environment'))
        elif kind in ('move', 'move_to'):
            name = op[1]
            o = w.objs.get(name)
            if o is None or w.kind[0] == 'plain':
                continue
            from ECAgent.Environments import PositionComponent
            _, W, H, D, wrap = w.kind
            off = 1 if w.kind[0] in ('discrete', 'line', 'grid') else 0
            d = tuple(op[2:5])
            resident = name in w.resident[w.cur]
            if not resident:
                continue
            p0 = w.opos[name]
            before = (o[PositionComponent].x, o[PositionComponent].y, o[PositionComponent].z)
            try:
                if kind == 'move':
                    env.move(o, *d)
                    if wrap:
                        exp = tuple(((p + dd) % e) if e != 0 else p for p, dd, e in zip(p0, d, (W, H, D)))
                    else:
                        exp = tuple(max(min(p + dd, e - off), 0) for p, dd, e in zip(p0, d, (W, H, D)))
                    w.opos[name] = exp
                else:
                    ok = all((0 <= v <= e - off) or e < 1 for v, e in zip(d, (W, H, D)))
                    env.move_to(o, *d)
                    if not ok:
                        out.append(('C08', f'{where}: out-of-range absolute move accepted'))
                    w.opos[name] = d
            except IndexError:
                ok = all((0 <= v <= e - off) or e < 1 for v, e in zip(d, (W, H, D)))
                if kind == 'move' or ok:
                    out.append(('C08', f'{where}: unexpected IndexError'))
                if (o[PositionComponent].x, o[PositionComponent].y, o[PositionComponent].z) != before:
                    out.append(('C08', f'{where}: rejected move changed the position'))
        elif kind == 'at':
            if w.kind[0] == 'plain':
                continue
            q = op[1:4]
            lw, xl, yl, zl = op[4:8]
            k = w.cur
            exp = []
            for n in w.resident[k]:
                p = w.opos[n]
                if all(qq - max(a, lw) <= pp <= qq + max(a, lw) for pp, qq, a in zip(p, q, (xl, yl, zl))):
                    exp.append(w.objs[n])
            got = env.get_agents_at(q[0], q[1], q[2], lw, xl, yl, zl)
            if w.kind[4] and len(op) > 8 and op[8] == 'seam':
                # documented wrapping behaviour: distance measured around the seam on every positive axis
                exp = []
                for n in w.resident[k]:
                    p = w.opos[n]
                    ok = True
                    for pp, qq, a, e in zip(p, q, (xl, yl, zl), w.kind[1:4]):
                        dd = abs(pp - qq)
                        if e > 0:
                            dd = min(dd % e, e - (dd % e))
                        ok = ok and dd <= max(a, lw)
                    if ok:
                        exp.append(w.objs[n])
                if len(got) != len(exp) or any(a is not b for a, b in zip(got, exp)):
                    out.append(('C12', f'{where}: wrapping world: get_agents_at -> {_ids(got)}, '
                                       f'expected {_ids(exp)} (seam-aware)'))
            elif len(got) != len(exp) or any(a is not b for a, b in zip(got, exp)):
                if not w.kind[4]:
                    out.append(('C12', f'{where}: get_agents_at -> {_ids(got)}, expected {_ids(exp)}'))
            # the answer is the caller's own list (an empty one included): scribbling on it shows nowhere later
            if isinstance(got, list):
                got.append(m.environment)
                got.reverse()
        elif kind in ('cadd', 'cremove'):
            ci, ct = op[1], op[2]
            cls = w.K[ci]
            before = monitor.fingerprint(cls._components)
            try:
                if kind == 'cadd':
                    c = w.CT[ct](cls, m)
                    cls.add_class_component(c)
                    if ct in w.ccomps[ci]:
                        out.append(('C20', f'{where}: duplicate class component accepted'))
                    w.ccomps[ci][ct] = c
                else:
                    cls.remove_class_component(w.CT[ct])
                    if ct not in w.ccomps[ci]:
                        out.append(('C20', f'{where}: detaching an absent class component accepted'))
                    w.ccomps[ci].pop(ct, None)
            except (ValueError, ComponentNotFoundError):
                if (kind == 'cadd') != (ct in w.ccomps[ci]):
                    out.append(('C20', f'{where}: class component edit wrongly rejected'))
                if monitor.fingerprint(cls._components) != before:
                    out.append(('C20', f'{where}: rejected class component edit left a trace'))
        elif kind == 'subclass':
            parent = op[1]
            if parent < len(w.K):
                cls = type(f'K{len(w.K)}', (w.K[parent],), w.NS)
                w.K.append(cls)
                w.ccomps[len(w.K) - 1] = {}
                w.ctag[len(w.K) - 1] = 0
        elif kind == 'ctag':
            w.K[op[1]].tag = op[2]
            w.ctag[op[1]] = op[2]
        check_listings(w, out, where)
        check_classes(w, out, where)
        check_positions(w, out, where)
        if len([o_ for o_ in out if not props or o_[0] in props]) > 6:
            break
    return out


# ------------------------------------------------------------------------------------------------ generators
def _mk(name, ci=0, tag=None, cts=()):
    return ('mk', name, ci, tag, list(cts))


def small_histories(prop):
    subsets = [(), (0,), (1,), (0, 1), (0, 1, 2)]
    # joining / leaving / re-joining with every component mix (plain)
    for c1, c2, c3 in itertools.product(subsets[:4], repeat=3):
        yield [_mk('a', 0, None, c1), _mk('b', 1, 2, c2), _mk('c', 2, 0, c3), ('add', 'a'), ('add', 'b'), ('add', 'c'),
               ('query', [0], 'none'), ('query', [0, 1], 'none'), ('query', [], 0), ('query', [1], 2),
               ('remove', 'a'), ('query', [0], 'none'), ('add', 'a'), ('remove', 'b'), ('remove', 'zz'),
               ('get', 'a', True), ('get', 'zz', False), ('get', 'zz', True), ('remove', 'c'), ('remove', 'a')]
    # colliding identifiers (distinct objects sharing an id), with and without components
    for c1, c2 in itertools.product(subsets[:3], repeat=2):
        yield [_mk('a', 0, None, c1), _mk('a#2', 0, None, c2), ('add', 'a'), ('add', 'a#2'), ('add', 'a'),
               ('remove', 'a'), ('add', 'a#2'), ('add', 'a'), ('remove', 'a'), ('remove', 'a')]
    # edits before joining / after leaving
    yield [_mk('a', 0, None, (0,)), ('attach', 'a', 1), ('add', 'a'), ('remove', 'a'), ('detach', 'a', 0),
           ('attach', 'a', 2), ('add', 'a'), _mk('b', 0, None, (2,)), ('add', 'b'), ('remove', 'a'), ('remove', 'b')]
    # several models
    yield [_mk('a', 0, None, (0,)), ('add', 'a'), ('model', 1), _mk('b', 0, None, (0, 1)), ('add', 'b'), ('model', 0),
           ('remove', 'a'), ('model', 1), ('remove', 'b')]
    # three residents sharing a type, the first / middle / last leaves
    for who in 'abc':
        yield [_mk('a', 0, None, (0, 1)), _mk('b', 0, None, (0,)), _mk('c', 0, None, (0, 1)), ('add', 'a'), ('add', 'b'),
               ('add', 'c'), ('remove', who), ('query', [0], 'none'), ('add', who), ('remove', 'b')]
    # spatial worlds
    for kind, dims in (('space', (5, 5, 5)), ('space', (5, 0, 5)), ('space', (0, 5, 5)), ('discrete', (3, 0, 3)),
                       ('discrete', (3, 3, 3)), ('line', (4, 0, 0)), ('grid', (4, 3, 0)),
                       ('space', (0.5, 0.5, 0.5)), ('space', (5.0, 0.75, 0)), ('space', (2.5, 1.5, 0.25))):
        W, H, D = dims
        off = 0 if kind == 'space' else 1
        places = [(0, 0, 0), (max(W - off, 0), max(H - off, 0), max(D - off, 0)), (W + 1, 0, 0), (0, H + 1, 0),
                  (0, 0, D + 1), (-1, 0, 0), (0, -1, 0), (0, 0, -1)]
        # just outside a face by less than one unit (truncation / rounding of the coordinate must not let it in)
        for ax, e in enumerate((W, H, D)):
            if e > 0:
                for v in (-0.5, e - off + 0.5, -0.001, e - off + 0.001):
                    places.append(tuple(v if j == ax else 0 for j in range(3)))
        ops = [('world', kind, W, H, D, False)]
        for i, p in enumerate(places):
            ops += [_mk(f'p{i}', 0, None, (0,) if i % 2 else ()), ('add', f'p{i}') + p]
        ops += [('add', 'p0', 0, 0, 0), ('remove', 'p0'), ('remove', 'p1'), ('remove', 'p0')]
        yield ops
    for kd in ('plain', 'space', 'grid'):
        yield [('envcls', kd, 6), _mk('a', 0), ('envcls', kd, 0)]
    # agents with their own truth value join and leave every kind of world like any other agent
    for kind, dims in (('plain', (0, 0, 0)), ('space', (4.0, 4.0, 0.0)), ('grid', (3, 3, 0)), ('discrete', (2, 2, 2))):
        ops = [('world', kind) + dims + (False,)] if kind != 'plain' else []
        pl = (1, 1, 0) if kind != 'plain' else ()
        yield ops + [_mk('a', 4, None, (0, 1)), _mk('b', 4, 2, ()), _mk('c', 0, None, (0,)), ('add', 'a') + pl, ('add', 'b') + pl,
                     ('add', 'c') + pl, ('query', [0], 'none'), ('remove', 'a'), ('query', [0], 'none'), ('remove', 'b'),
                     ('add', 'a') + pl, ('remove', 'c'), ('remove', 'a')]
    if prop == 'C03':
        for kind, dims in (('grid', (3, 3, 0)), ('space', (4.0, 4.0, 0.0))):
            yield [('world', kind) + dims + (False,), _mk('a', 0, None, (0, 1)), _mk('b', 0, None, (0,)), ('attachpos', 'a'),
                   ('add', 'b', 1, 1, 0), ('add', 'a', 0, 0, 0), ('query', [0], 'none'), ('query', [1], 'none')]
    # deprecated alias in every world kind
    for kind, dims in (('plain', (0, 0, 0)), ('space', (4, 4, 0)), ('grid', (3, 3, 0)), ('discrete', (2, 2, 2))):
        ops = [('world', kind) + dims + (False,)] if kind != 'plain' else []
        yield ops + [_mk('a', 0, None, (0, 1)), _mk('b', 0, None, (0,)), ('add', 'a', 1, 1, 0) if kind != 'plain' else ('add', 'a'),
                     ('add', 'b', 0, 0, 0) if kind != 'plain' else ('add', 'b'), ('remove_alias', 'a'), ('query', [0], 'none'),
                     ('remove_alias', 'zz'), ('remove', 'b')]
    # a derived component type attached before / after its base type: listings and lookups are by exact type
    for order in ((3, 0), (0, 3), (3,), (3, 0, 1)):
        yield [_mk('a', 0, None, order), _mk('b', 0, None, (0,)), _mk('c', 0, None, (3,)), ('add', 'a'), ('add', 'b'),
               ('add', 'c'), ('query', [0], 'none'), ('query', [3], 'none'), ('query', [0, 3], 'none'), ('remove', 'a'),
               ('query', [0], 'none'), ('add', 'a'), ('remove', 'b'), ('remove', 'c'), ('remove', 'a')]
    if prop == 'C13':
        # queries are filters over the agents' *current* components, in joining order - also after a removal that failed
        yield [_mk('a', 0, None, (0,)), _mk('b', 0, None, (0,)), _mk('c', 0, None, (0,)), ('add', 'a'), ('add', 'b'),
               ('add', 'c'), ('attach', 'b', 1), ('query', [1], 'none'), ('remove', 'b'), ('query', [], 'none'),
               ('query', [0], 'none'), ('remove', 'a'), ('query', [0], 'none')]
        yield [_mk('a', 0, None, (0, 3)), _mk('b', 0, None, (3,)), _mk('c', 0, None, (3, 0)), ('add', 'a'), ('add', 'b'),
               ('add', 'c'), ('detach', 'a', 0), ('query', [3], 'none'), ('query', [0], 'none'), ('detach', 'c', 0),
               ('query', [3], 'none'), ('query', [0, 3], 'none')]
    # tags beyond the small-int cache, falsy components
    yield [_mk('a', 0, 70001, (2,)), _mk('b', 0, 70001, (0, 2)), _mk('c', 0, 5, (2,)), ('add', 'a'), ('add', 'b'), ('add', 'c'),
           ('query', [], 70001), ('query', [2], 'none'), ('query', [0, 2], 70001), ('query', [2], 5), ('remove', 'a'), ('remove', 'b')]
    # classes (C20): subclasses defined after the parent received class components / a default tag
    for parent in range(NK):
        yield [('cadd', parent, 0), ('ctag', parent, 4), ('subclass', parent), ('cadd', NK, 1), ('cadd', NK, 0),
               ('cremove', parent, 0), _mk('x', NK), ('ctag', NK, 2), _mk('y', parent), _mk('z', NK),
               ('subclass', NK), ('cremove', NK + 1, 1), ('cadd', NK + 1, 2), _mk('u', NK + 1, 0)]
    for ci, cj in itertools.permutations(range(NK), 2):
        yield [('cadd', ci, 0), ('ctag', ci, 5), _mk('x', ci), _mk('y', cj), _mk('z', ci, 0), ('cadd', ci, 0),
               ('cremove', cj, 0), ('cadd', cj, 1), ('ctag', cj, 7), _mk('u', cj), _mk('v', ci, 3), ('cremove', ci, 0),
               ('attach', 'x', 0), ('cremove', ci, 0), ('ctag', ci, 0), _mk('t', ci)]


def random_history(rng, prop):
    ops = []
    kinds = [('plain', 0, 0, 0)] * 3 + [('space', 4, 4, 0), ('discrete', 3, 3, 3), ('grid', 3, 2, 0), ('line', 5, 0, 0),
                                         ('space', 3, 0, 3)]
    k = rng.choice(kinds)
    if k[0] != 'plain':
        ops.append(('world',) + k + (rng.random() < 0.3,))
    names = ['a', 'b', 'c', 'd', 'a#2', 'b#2']
    made = []
    for _ in range(rng.randint(4, 16)):
        r = rng.random()
        if r < 0.25 or not made:
            n = rng.choice(names)
            if n in made:
                continue
            made.append(n)
            ops.append(_mk(n, rng.randrange(NK), rng.choice([None, None, 0, 1, 3, 70001]),
                           rng.sample(range(NCT), rng.randint(0, NCT))))
        elif r < 0.5:
            n = rng.choice(made)
            if k[0] == 'plain':
                ops.append(('add', n))
            else:
                ops.append(('add', n, rng.randint(-1, k[1] + 1), rng.randint(-1, k[2] + 1) if k[2] else 0,
                            rng.randint(-1, k[3] + 1) if k[3] else 0))
        elif r < 0.65:
            ops.append((rng.choice(['remove', 'remove', 'remove_alias']), rng.choice(['a', 'b', 'c', 'd', 'zz'])))
        elif r < 0.72:
            ops.append(('get', rng.choice(['a', 'b', 'zz']), rng.random() < 0.5))
        elif r < 0.85:
            ops.append(('query', rng.sample(range(NCT), rng.randint(0, NCT)), rng.choice(['none', 'none', 0, 1, 3, 9, 70001])))
        elif r < 0.9 and prop == 'C20':
            ops.append((rng.choice(['cadd', 'cremove']), rng.randrange(NK), rng.randrange(NCT)))
        elif r < 0.95 and prop == 'C20':
            ops.append(('ctag', rng.randrange(NK), rng.randint(0, 5)))
        elif k[0] == 'plain' and rng.random() < 0.5:
            ops.append(('model', rng.randint(0, 1)))
    return ops


def spatial_histories(prop):
    worlds = [('space', 5.0, 3.0, 7.0), ('space', 5.0, 0.0, 5.0), ('space', 0.0, 4.0, 0.0), ('discrete', 3, 0, 3),
              ('discrete', 4, 3, 2), ('line', 5, 0, 0), ('grid', 5, 1, 0), ('grid', 4, 3, 0), ('space', 1.0, 1.0, 1.0)]
    for kind, W, H, D in worlds:
        fl = kind == 'space'
        half = 0.5 if fl else 0
        for wrap in (False, True):
            ops = [('world', kind, W, H, D, wrap)] + ([('cpos', 0)] if wrap else []) + [
                   _mk('a', 0, None, (0,)), _mk('b', 0, None, (4,)), _mk('c'), _mk('a#2'),
                   ('add', 'a', 0, 0, 0), ('add', 'a#2', half, 0, 0), ('add', 'b', (W - (0 if fl else 1)) if W else 0, (H - (0 if fl else 1)) if H else 0,
                                           (D - (0 if fl else 1)) if D else 0), ('add', 'c', half, 0, 0)]
            for d in [(1, 0, 0), (0, 1, 0), (0, 0, 1), (-1, -1, -1), (11, -9, 23), (-17, 40, -3), (W, H, D),
                      (2 * W + 1, -2 * H - 1, 3 * D), (half, half, half)]:
                ops += [('move', 'a') + d, ('move', 'b') + d]
            for t in [(0, 0, 0), (W, H, D), (W - 1, H - 1, D - 1), (0, 41, 0), (-1, 0, 0), (0, 0, D + 1), (W + 1, 0, 0),
                      (half, half, half)]:
                ops += [('move_to', 'a') + t]
            # a rejected absolute move whose first axes are fine: nothing may have been written (queries must agree)
            ops += [('move_to', 'b', 0, H + 5, 0), ('at', 0, 0, 0, 0, 0, 0, 0),
                    ('at', (W - (0 if fl else 1)) if W else 0, (H - (0 if fl else 1)) if H else 0, (D - (0 if fl else 1)) if D else 0, 0, 0, 0, 0),
                    ('move_to', 'b', 0, 0, D + 7), ('at', 0, 0, 0, 0, 0, 0, 0)]
            for q in [(0, 0, 0), (W, H, D), (half, 0, 0)]:
                for lw in [(0, 0, 0, 0), (1, 0, 0, 0), (0, 2, 0, 0), (0, 0, 2, 1), (1, 0, 3, 0), (0, 0, 0, 3), (-1, -1, -1, -1),
                           (0.5, 0, 2, 0)]:
                    ops += [('at',) + q + lw]
            ops += [('remove', 'a'), ('at', 0, 0, 0, 9, 9, 9, 9), ('remove', 'b')]
            yield ops


def numeric_spatial_histories():
    """coordinates of unusual numeric kinds: unsigned numpy scalars (no arithmetic may be done on them that wraps), floats
    that sit exactly on a face of the leeway box (bounds are inclusive, computed as q - L <= p <= q + L)"""
    for kind, W, H, D in (('space', 9.0, 9.0, 0.0), ('grid', 9, 9, 0)):
        ops = [('world', kind, W, H, D, False), _mk('a'), _mk('b'), _mk('c'),
               ('add', 'a', 1, 1, 0, 'u8'), ('add', 'b', 3, 2, 0, 'u8'), ('add', 'c', 0, 8, 0, 'u8')]
        for q in ((2, 2, 0), (4, 1, 0), (8, 8, 0), (0, 0, 0), (3, 3, 0)):
            for lw in ((1, 0, 0, 0), (0, 2, 1, 0), (3, 0, 0, 0), (0, 0, 0, 0)):
                ops.append(('at',) + q + lw)
        yield ops + [('remove', 'a'), ('at', 2, 2, 0, 5, 0, 0, 0)]
    ops = [('world', 'space', 5.0, 5.0, 0.0, False), _mk('a'), _mk('b'), ('add', 'a', 1.0 + 0.1, 2.0 - 0.3, 0),
           ('add', 'b', 0.1 + 0.2, 0.7, 0)]
    for q, lw in (((1.0, 2.0, 0), (0.1, 0, 0.3, 0)), ((1.0, 1.7, 0), (0, 0.1, 0, 0)), ((0.0, 0.7, 0), (0, 0.1 + 0.2, 0, 0)),
                  ((0.1, 0.7, 0), (0.2, 0, 0, 0)), ((1.2, 1.7, 0), (0, 0.1, 0.0, 0))):
        ops.append(('at',) + q + lw)
    yield ops + [('move_to', 'a', 0.1 + 0.2, 0.7, 0), ('at', 0.0, 0.7, 0, 0, 0.3, 0, 0), ('at', 0.0, 0.7, 0, 0.1 + 0.2, 0, 0, 0)]


def random_spatial(rng, prop):
    kind = rng.choice(['space', 'space', 'discrete', 'line', 'grid'])
    fl = kind == 'space'
    ext = lambda: rng.choice([0, 1, 2, 3, 5]) * (1.0 if fl else 1)
    W = rng.choice([1, 2, 3, 5]) * (1.0 if fl else 1)
    H = ext() if kind in ('space', 'discrete') else (rng.choice([1, 2, 4]) if kind == 'grid' else 0)
    D = ext() if kind in ('space', 'discrete') else 0
    wrap = rng.random() < 0.4
    ops = [('world', kind, W, H, D, wrap)]
    names = ['a', 'b', 'c']
    num = (lambda lo, hi: round(rng.uniform(lo, hi) * 2) / 2) if fl else (lambda lo, hi: rng.randint(int(lo), int(hi)))
    for n in names:
        ops.append(_mk(n, 0, None, rng.sample(range(NCT), rng.randint(0, 2))))
    for _ in range(rng.randint(5, 18)):
        r = rng.random()
        n = rng.choice(names)
        if r < 0.25:
            ops.append(('add', n, num(-1, W + 1), num(-1, H + 1) if H else 0, num(-1, D + 1) if D else 0))
        elif r < 0.5:
            ops.append(('move', n, num(-3 * W - 2, 3 * W + 2), num(-3 * H - 2, 3 * H + 2), num(-3 * D - 2, 3 * D + 2)))
        elif r < 0.65:
            ops.append(('move_to', n, num(-1, W + 1), num(-1, H + 1), num(-1, D + 1)))
        elif r < 0.9:
            ops.append(('at', num(-1, W + 1), num(-1, H + 1), num(-1, D + 1), num(-1, 2), num(-1, 3), num(-1, 3), num(-1, 3)))
        else:
            ops.append(('remove', n))
    return ops


def _resident_edits(ops):
    """Does the history attach/detach/register on a resident agent (the part of C03 that is an open finding)?"""
    resident = set()
    for op in ops:
        if op[0] == 'add':
            resident.add(op[1])
        elif op[0] == 'remove':
            resident = {n for n in resident if n.split('#')[0] != op[1]}
        elif op[0] in ('attach', 'detach', 'register', 'deregister') and op[1] in resident:
            return True
    return False


def histories(seed, budget, prop='C04'):
    rng = random.Random(seed)
    if prop in ('C08', 'C12'):
        yield from spatial_histories(prop)
        yield from numeric_spatial_histories()
        for _ in range(budget):
            yield random_spatial(rng, prop)
        return
    yield from small_histories(prop)
    for _ in range(budget):
        h = random_history(rng, prop)
        if prop == 'C13' or not _resident_edits(h):
            yield h
