"""Native side (/venv/bin/python): witness search, replay, run-time contract monitoring.

  python -m replayers.run search --prop C01 --seed 1 --budget 200
  python -m replayers.run replay --file out/C01/replay-0.json
Output: one JSON document on stdout.
"""
import argparse
import importlib
import json
import os
import sys
import time
import traceback

sys.path.insert(0, '/verif')
os.environ.setdefault('PYTHONHASHSEED', '0')

DRIVERS = {
    'C01': ('replayers.sched', dict(dynamic='both')),
    'C02': ('replayers.sched', dict(dynamic='both')),
    'C06': ('replayers.sched', dict(dynamic=False)),
    'C05': ('replayers.sched', dict(dynamic=True)),
    'C03': ('replayers.envw', dict(prop='C03')),
    'C04': ('replayers.envw', dict(prop='C04')),
    'C13': ('replayers.envw', dict(prop='C13')),
    'C20': ('replayers.envw', dict(prop='C20')),
    'C08': ('replayers.envw', dict(prop='C08')),
    'C09': ('replayers.gridw', dict(prop='C09')),
    'C10': ('replayers.gridw', dict(prop='C10')),
    'C11': ('replayers.gridw', dict(prop='C11')),
    'C12': ('replayers.envw', dict(prop='C12')),
    'C19': ('replayers.tagsw', dict(prop='C19')),
    'C17': ('replayers.collw', dict(prop='C17')),
    'C07': ('replayers.detw', dict(prop='C07')),
    'C18': ('replayers.decodew', dict(prop='C18')),
    'C14': ('replayers.batchw', dict(prop='C14')),
    'C15': ('replayers.batchw', dict(prop='C15')),
    'C16': ('replayers.batchw', dict(prop='C16')),
}


def load_contracts():
    import contracts.all      # noqa: F401
    from pyvc.specs import REG
    # names of repository classes used inside predicates (resolved through the class table by the prover)
    import contracts.core as cc
    import ECAgent.Environments as E
    cc.PositionComponent = E.PositionComponent
    import contracts.environments as ce
    ce.PositionComponent = E.PositionComponent
    import contracts.tags as ct
    import ECAgent.Tags as T
    ct._module_library = T._module_library
    return REG


def run_one(drv, prop, ops, kw):
    from replayers import monitor
    monitor.FAILURES.clear()
    err = None
    try:
        viol = drv.run_history(ops, props=(prop,))
    except Exception:
        viol = []
        err = traceback.format_exc()[-600:]
    viol = [v for v in viol if v[0] == prop]
    fails = [f for f in monitor.FAILURES]
    if getattr(drv, 'LAST_DYNAMIC', False):
        # the static-view contracts of the scheduler assume that user code does not edit the system set mid-step
        fails = [f for f in fails if f.get('function') not in ('Core.SystemManager.execute_systems', 'Core.Model.execute')]
    return viol, fails, err


def relevant(fails, prop, reg):
    """Monitor failures that belong to `prop`: clause comes from an ensures list tagged with prop, or the
    function carries prop in its props (raises / frame / safety)."""
    out = []
    for f in fails:
        c = reg.contracts.get(f['function'])
        if c is None:
            continue
        label = f['clause']
        if f['kind'] in ('post', 'xpost'):
            pname = label.split(':')[-1].split('[')[0]
            tags = [t for t, preds in c.ensures.items() if any(p.__name__ == pname for p in preds)]
            for rd in c.raises.values():
                tags += [t for t, preds in (rd.get('ensures') or {}).items() if any(p.__name__ == pname for p in preds)]
            if prop in tags:
                out.append(f)
        elif f['kind'] == 'assert':
            mon = reg.contracts.get('Core.System.execute')
            pname = label.split(':')[-1]
            if mon and any(p.__name__ == pname for p in mon.monitor.get(prop, [])):
                out.append(f)
        elif f['kind'] == 'spec-error':
            continue
        else:
            exc = label.split(':')[1] if ':' in label else ''
            rd = c.raises.get(exc, {})
            tags = rd.get('props') or c.props
            if prop in tags:
                out.append(f)
    return out


def cmd_search(a):
    from replayers import monitor
    reg = load_contracts()
    modname, kw = DRIVERS[a.prop]
    drv = importlib.import_module(modname)
    monitor.install(reg, props=[a.prop])
    t0 = time.time()
    n = 0
    found = None
    spec_errors = []
    known = json.loads(a.known) if a.known else []
    known_hits = 0
    for ops in drv.histories(a.seed, a.budget, **kw):
        n += 1
        viol, fails, err = run_one(drv, a.prop, ops, kw)
        rel = relevant(fails, a.prop, reg)
        se = [f for f in fails if f['kind'] == 'spec-error']
        if se and len(spec_errors) < 3:
            spec_errors.append(dict(history=ops, error=se[0]))
        if err and len(spec_errors) < 3:
            spec_errors.append(dict(history=ops, driver_error=err))
        if viol or rel:
            if known and _all_known(viol, rel, known):
                known_hits += 1
                continue
            found = dict(history=ops, oracle=viol, contract_failures=rel, driver_error=err)
            break
        if time.time() - t0 > a.time_limit:
            break
    out = dict(prop=a.prop, histories=n, found=found, known_finding_histories=known_hits, evals=dict(monitor.EVALS), wall_s=round(time.time() - t0, 2),
               spec_errors=spec_errors)
    print(json.dumps(out, default=str))


def _all_known(viol, rel, known):
    """Every reported failure of this history is one of the listed known findings (token lists matched against
    the failure text); contract failures are never 'known' this way."""
    if rel:
        return False
    for v in viol:
        txt = json.dumps(v, default=str)
        if not any(all(tok in txt for tok in toks) for toks in known):
            return False
    return True


def cmd_replay(a):
    from replayers import monitor
    reg = load_contracts()
    doc = json.load(open(a.file))
    prop = doc['property']
    modname, kw = DRIVERS[prop]
    drv = importlib.import_module(modname)
    monitor.install(reg, props=[prop])
    ops = doc.get('history')
    if ops is None:
        print(json.dumps(dict(replayed=False, reason='replay file carries no concrete history (no-failing-input-found)',
                              obligation=doc.get('obligation'))))
        return 0
    ops = [tuple(_tuplify(o)) for o in ops]
    viol, fails, err = run_one(drv, prop, ops, kw)
    rel = relevant(fails, prop, reg)
    print(json.dumps(dict(replayed=True, reproduced=bool(viol or rel), oracle=viol, contract_failures=rel,
                          driver_error=err), default=str))
    return 1 if (viol or rel) else 0


def _tuplify(o):
    if isinstance(o, list):
        return [(_tuplify(x) if isinstance(x, list) else x) for x in o]
    return o


def main():
    p = argparse.ArgumentParser()
    sub = p.add_subparsers(dest='cmd')
    s = sub.add_parser('search')
    s.add_argument('--prop', required=True)
    s.add_argument('--seed', type=int, default=0)
    s.add_argument('--budget', type=int, default=100)
    s.add_argument('--time-limit', type=float, default=60)
    s.add_argument('--known', default='')
    r = sub.add_parser('replay')
    r.add_argument('--file', required=True)
    a = p.parse_args()
    if a.cmd == 'search':
        cmd_search(a)
    elif a.cmd == 'replay':
        sys.exit(cmd_replay(a) or 0)


if __name__ == '__main__':
    main()
