"""Batching cases (C14 ParameterList, C15 batch_run, C16 grid_search) against independent oracles.

C14 history: ('plist', [ops])   ops: ('new', {name: spec} | None) ('add', name, spec) ('remove', name) ('build',)
             spec: ('int', v) ('str', s) ('list', [..]) ('tuple', [..]) ('range', n) ('array', [..]) ('none',)
C15 history: ('batch', grid{name: [values]}, repetitions, max_timesteps, collectors, processes, fail_at|None)
C16 history: ('search', grid, repetitions, mode, processes, scorefn)
"""
import itertools
import random
import sys

sys.path.insert(0, '/verif')
from replayers import monitor    # noqa: E402


def _value(spec):
    import numpy as np
    k = spec[0]
    if k in ('int', 'str'):
        return spec[1]
    if k == 'none':
        return None
    if k == 'list':
        return list(spec[1])
    if k == 'tuple':
        return tuple(spec[1])
    if k == 'range':
        return range(spec[1])
    if k == 'array':
        return np.array(spec[1])
    if k == 'array0':
        return np.array(spec[1])          # 0-d array: has __iter__ but is not iterable -> a single value
    if k == 'oldseq':
        return _OldSeq(spec[1])           # iterable through __getitem__/__len__ only
    raise ValueError(spec)


class _OldSeq:
    def __init__(self, xs):
        self.xs = list(xs)

    def __getitem__(self, i):
        return self.xs[i]

    def __len__(self):
        return len(self.xs)

    def __eq__(self, other):
        return isinstance(other, _OldSeq) and self.xs == other.xs


def _items(v):
    if isinstance(v, str):
        return [v]
    try:
        return list(v)
    except TypeError:
        return [v]


def _same(a, b):
    try:
        r = (a == b)
        return bool(r) if not hasattr(r, 'all') else bool(r.all())
    except Exception:
        return a is b


def expected_product(decl):
    combos = [[]]
    for name, v in decl:
        combos = [c + [(name, it)] for c in combos for it in _items(v)]
    return combos


# ------------------------------------------------------------------------------------------------ models for C15 / C16
def _model_classes():
    from ECAgent.Core import Model, System
    from ECAgent.Collectors import Collector

    class Rec(Collector):
        def collect(self):
            m = self.model
            # a collector that re-binds its record list (a sliding window would): what counts is `records` after the run
            self.records = self.records + [(m.a, m.b, m.systems.timestep)]

    class Stopper(System):
        def execute(self):
            m = self.model
            if m.fail and m.systems.timestep == 1:
                if m.fail == 'stop':       # e.g. next() on an exhausted iterator inside user code
                    raise StopIteration(f'execution a={m.a} b={m.b} failed')
                if m.fail == 'lib-agent':  # the library's own errors, raised by ordinary misuse inside a system
                    m.environment.remove_agent('nobody')
                if m.fail == 'lib-component':
                    m.environment.get_component(Rec, True)
                if m.fail == 'lib-system':
                    m.systems.remove_system('no-such-system')
                if m.fail == 'lib-complete':
                    m.complete()
                    m.systems.execute_systems(True)
                raise RuntimeError(f'execution a={m.a} b={m.b} failed')
            m.work += 1
            if m.systems.timestep >= m.stop:
                m.complete()

    return Model, Rec, Stopper


class BM:
    """Picklable model factory (module level, so that worker processes can import it)."""
    _cls = None

    def __new__(cls, a=0, b=0, stop=3, fail=False, seed=None, burn=0):
        Model, Rec, Stopper = _model_classes()

        class _M(Model):
            timestep = 0.25        # the user's own attribute (say, hours per tick): not the scheduler's step counter
        m = _M(seed)
        m = _build(m, a, b, stop, fail, Rec, Stopper)
        for _ in range(burn):          # a model that warms up inside its constructor: its clock does not start at 0
            m.execute()
        return m


def _build(m, a, b, stop, fail, Rec, Stopper):
    m.a, m.b, m.stop, m.fail, m.work = a, b, stop, fail, 0
    m.systems.add_system(Stopper('stopper', m))
    m.systems.add_system(Rec('rec', m))
    m.systems.add_system(Rec('rec2', m, priority=-2))
    return m


def score_sum(m):
    return m.a * 10 - m.b + m.work * 0


def score_big(m):
    return (m.a + 2) * sys.maxsize


def score_neg(m):
    return -(m.a + 2) * sys.maxsize - m.b


def score_tie(m):
    return (m.a % 2) + m.systems.timestep * 0


def score_work(m):
    return m.work + m.a


def score_float(m):
    # a noisy measurement of large magnitude: repetitions differ by quarters around 2**40 (exactly representable;
    # the exact variance of such a sample is far below the rounding error of its squares)
    import random as _r
    return 2.0 ** 40 + m.a + 0.25 * _r.randrange(4)


SCORES = dict(sum=score_sum, big=score_big, neg=score_neg, tie=score_tie, work=score_work, float=score_float)


HANGS = 0


def run_history(case, props=None):
    """Histories that start worker processes run in a child process group with a watchdog: a multiprocessing pool that
    is torn down while results are pending can (rarely) hang inside CPython; such a run is killed and repeated once,
    and counted as inconclusive (never as a violation) if it hangs again."""
    procs = case[5] if case[0] in ('batch', 'batch_pl', 'search_pl') else (case[4] if case[0] == 'search' else 1)
    if not isinstance(procs, int) or procs <= 1:
        return _run_history(case, props)
    import multiprocessing as mp
    import os
    import signal
    global HANGS
    ctx = mp.get_context('fork')
    for attempt in (0, 1):
        rd, wr = ctx.Pipe(duplex=False)

        def child():
            os.setsid()
            try:
                wr.send(_run_history(case, props))
            except BaseException as ex:      # noqa
                wr.send([('C15' if case[0].startswith('batch') else 'C16', f'driver error {type(ex).__name__}: {ex}')])
        p = ctx.Process(target=child)
        p.start()
        wr.close()
        expects_error = case[0] == 'batch' and case[6] is not None
        if rd.poll(25 if expects_error else 90):
            res = rd.recv()
            p.join(5)
            if p.is_alive():
                try:
                    os.killpg(p.pid, signal.SIGKILL)
                except Exception:
                    pass
            return res
        try:
            os.killpg(p.pid, signal.SIGKILL)
        except Exception:
            p.kill()
        p.join(5)
    HANGS += 1
    if expects_error:
        # twice in a row: not the rare teardown hang of CPython's pool - the error of the failing execution never arrives
        return [('C15', f'batch_run(processes={procs}) with a failing execution ({case[6]}) did not return within 25 s '
                        f'(two attempts): the error never reaches the caller')]
    return []


def _run_history(case, props=None):
    out = []
    kind = case[0]
    import ECAgent.Batching as B
    if kind == 'plist':
        pl = None
        decl = []
        for k, op in enumerate(case[1]):
            w = f'after op {k} {op!r}'
            if op[0] == 'new':
                arg = None if op[1] is None else {n: _value(s) for n, s in op[1].items()}

                class Tracked(B.ParameterList):
                    _verif_user = True
                    # a user subclass that watches later additions: the constructor's own declarations are not
                    # "later additions" (the base constructor does not go through the overridable public method)
                    def __init__(self, parameters=None):
                        super().__init__(parameters)
                        self.later = []

                    def add_parameter(self, name, value):
                        self.later.append(name)
                        return super().add_parameter(name, value)
                try:
                    pl = Tracked(arg)
                except AttributeError as ex:
                    out.append(('C14', f'{w}: constructor declaration rejected for a subclass that overrides '
                                       f'add_parameter: {ex}'))
                    pl = None
                    continue
                decl = [] if arg is None else [(n, v) for n, v in arg.items()]
            elif pl is None:
                continue
            elif op[0] == 'add':
                name = op[1]
                v = _value(op[2])
                before = [(n, id(x)) for n, x in pl._parameters.items()]
                try:
                    pl.add_parameter(name, v)
                    if not isinstance(name, str) or any(n == name for n, _ in decl):
                        out.append(('C14', f'{w}: invalid declaration accepted'))
                    decl.append((name, v))
                except (KeyError, AttributeError):
                    if isinstance(name, str) and not any(n == name for n, _ in decl):
                        out.append(('C14', f'{w}: valid declaration rejected'))
                    if [(n, id(x)) for n, x in pl._parameters.items()] != before:
                        out.append(('C14', f'{w}: rejected declaration had an effect'))
            elif op[0] == 'remove':
                name = op[1]
                before = [(n, id(x)) for n, x in pl._parameters.items()]
                try:
                    pl.remove_parameter(name)
                    if not any(n == name for n, _ in decl):
                        out.append(('C14', f'{w}: removal of an unknown name accepted'))
                    decl = [(n, v) for n, v in decl if n != name]
                except KeyError:
                    if any(n == name for n, _ in decl):
                        out.append(('C14', f'{w}: removal of a declared name rejected'))
                    if [(n, id(x)) for n, x in pl._parameters.items()] != before:
                        out.append(('C14', f'{w}: rejected removal had an effect'))
            elif op[0] == 'build':
                exp = expected_product(decl)
                before = [(n, id(x)) for n, x in pl._parameters.items()]
                got = pl.build()
                ok = len(got) == len(exp) and all(
                    list(g.keys()) == [n for n, _ in e] and all(_same(g[n], v) for n, v in e) for g, e in zip(got, exp))
                if not ok:
                    out.append(('C14', f'{w}: build() = {got!r:.300}, expected the product {exp!r:.300}'))
                if len({id(g) for g in got}) != len(got):
                    out.append(('C14', f'{w}: build() returned the same dictionary twice'))
                for g in got:
                    g['__poison__'] = 1
                again = pl.build()
                if len(again) != len(exp) or any('__poison__' in g for g in again):
                    out.append(('C14', f'{w}: build() is not repeatable / dictionaries are not independent'))
                if [(n, id(x)) for n, x in pl._parameters.items()] != before:
                    out.append(('C14', f'{w}: build() changed the declaration'))
            if len(out) > 4:
                break
    elif kind == 'batch':
        _, grid, reps, max_t, collectors, procs, fail_at = case
        grid = {n: (_value((v[0][1:], v[1])) if isinstance(v, list) and v and isinstance(v[0], str) and v[0].startswith('$')
                    else v) for n, v in grid.items()}
        decl = list(grid.items())
        combos = expected_product(decl)
        runs = combos * reps
        params = {n: v for n, v in grid.items()}
        if fail_at is not None:
            # inject one failing execution: parameter `fail` true for exactly one combination value of `a`
            params = dict(params)
            params['fail'] = [False]
        exp = []
        for c in runs:
            d = dict(c)
            stop = d.get('stop', 3)
            burn = min(d.get('burn', 0), stop)
            recs = [(d.get('a', 0), d.get('b', 0), t) for t in range(min(stop, max(max_t, burn)))]
            if collectors == 'rec':
                exp.append(recs)
            elif collectors is None:
                pass
            else:
                exp.append({c_: list(recs) for c_ in collectors})
        try:
            if fail_at is not None:
                bad = fail_at.split('-', 1)[1] if '-' in fail_at else True
                params['fail'] = [False, bad] if fail_at.startswith('last') else [bad, False]
                try:
                    B.batch_run(BM, params, collectors=collectors, processes=procs, max_timesteps=max(max_t, 3),
                                repetitions=reps)
                    out.append(('C15', f'a failing execution (kind {bad}, processes={procs}, position {fail_at}) was dropped '
                                       f'silently'))
                except (RuntimeError, StopIteration):
                    pass
                except Exception as ex:
                    if type(ex).__name__ not in ('AgentNotFoundError', 'ComponentNotFoundError', 'ModelCompleteError',
                                                 'SystemNotFoundError', 'MaybeEncodingError'):
                        out.append(('C15', f'failing execution surfaced as {type(ex).__name__}: {ex}'))
                return out
            got = B.batch_run(BM, params, collectors=collectors, processes=procs, max_timesteps=max_t, repetitions=reps)
        except Exception as ex:
            return [('C15', f'batch_run raised {type(ex).__name__}: {ex}')]
        if collectors is None:
            if got != []:
                out.append(('C15', f'no collectors requested but {len(got)} results returned'))
            return out
        key = lambda r: repr(r)          # noqa: E731
        if procs == 1:
            if [key(r) for r in got] != [key(r) for r in exp]:
                out.append(('C15', f'processes=1: results {got!r:.300} differ from product order x repetitions {exp!r:.300}'))
        elif sorted(map(key, got)) != sorted(map(key, exp)):
            out.append(('C15', f'processes={procs}: results are not exactly one per execution: got {len(got)}, '
                               f'expected {len(exp)}; {sorted(map(key, got))[:3]} vs {sorted(map(key, exp))[:3]}'))
    elif kind in ('search_pl', 'batch_pl'):
        # one ParameterList object reused across edits: every run must see the declaration as it is *then*
        _, grid, edits, reps, mode, procs, sname = case
        pl = B.ParameterList({n: v for n, v in grid.items()})
        decl = list(grid.items())
        for k, ed in enumerate([None] + list(edits)):
            if ed is not None:
                if ed[0] == 'remove':
                    pl.remove_parameter(ed[1])
                    decl = [(n, v) for n, v in decl if n != ed[1]]
                else:
                    pl.add_parameter(ed[1], ed[2])
                    decl.append((ed[1], ed[2]))
            if kind == 'search_pl':
                sub = _search(B, pl, decl, reps, mode, procs, sname)
            else:
                combos = expected_product(decl)
                exp = [[(dict(c).get('a', 0), dict(c).get('b', 0), t) for t in range(min(dict(c).get('stop', 3), 4))]
                       for c in combos * reps]
                try:
                    got = B.batch_run(BM, pl, collectors='rec', processes=procs, max_timesteps=4, repetitions=reps)
                    sub = [] if [repr(r) for r in got] == [repr(r) for r in exp] or (
                        procs > 1 and sorted(map(repr, got)) == sorted(map(repr, exp))) else [
                        ('C15', f'results {got!r:.200} differ from the declaration as it is now {exp!r:.200}')]
                except Exception as ex:
                    sub = [('C15', f'batch_run raised {type(ex).__name__}: {ex}')]
            out += [(p_, f'run #{k} (after edits {list(edits)[:k]}): {m_}') for p_, m_ in sub]
            if out:
                break
    elif kind == 'search':
        _, grid, reps, mode, procs, sname = case[:6]
        out += _search(B, {n: v for n, v in grid.items()}, list(grid.items()), reps, mode, procs, sname,
                       max_t=case[6] if len(case) > 6 else 50)
    return out


def _search(B, gridarg, decl, reps, mode, procs, sname, max_t=50):
    import statistics
    out = []
    if True:
        score = SCORES[sname]
        combos = expected_product(decl)
        try:
            best, results = B.grid_search(BM, gridarg, score, processes=procs, max_timesteps=max_t,
                                          repetitions=reps, mode=B.ScoreMode(mode))
        except Exception as ex:
            return [('C16', f'grid_search raised {type(ex).__name__}: {ex}')]
        if len(results) != len(combos):
            out.append(('C16', f'{len(results)} results for {len(combos)} combinations'))
            return out
        aggs = []
        for r, c in zip(results, combos):
            d = dict(c)
            Model, Rec, Stopper = _model_classes()
            scores = []
            for _ in range(reps):
                m = BM(**d)
                while m.is_running() and m.systems.timestep < max_t:
                    m.execute()
                scores.append(score(m))
            for n, v in c:
                if not _same(r.get(n), v):
                    out.append(('C16', f'parameters of a result were modified: {r!r:.200}'))
            if sname == 'float':
                # the score is noisy: judge the aggregate against the individual scores that were reported
                rec = list(r.get('records', []))
                if len(rec) != reps or any(x not in [2.0 ** 40 + d.get('a', 0) + 0.25 * k for k in range(4)] for x in rec):
                    out.append(('C16', f'individual scores {rec}: expected {reps} values 2**40 + a + k/4'))
                    continue
                scores = rec
            elif list(r.get('records', [])) != scores:
                out.append(('C16', f'individual scores {r.get("records")} expected {scores}'))
            if mode in (0, 1):
                agg = min(scores) if mode == 0 else max(scores)
            elif mode in (2, 3):
                agg = statistics.mean(scores)
            elif mode in (4, 5):
                agg = sum(scores)
            else:
                agg = statistics.variance(scores)
            aggs.append(agg)
            if r.get('score') != agg:
                out.append(('C16', f'aggregate {r.get("score")} expected {agg} (mode {mode})'))
        target = min(aggs) if mode % 2 == 0 else max(aggs)
        first = aggs.index(target)
        if best is not results[first]:
            bi = [k for k, r in enumerate(results) if r is best]
            out.append(('C16', f'best is combination {bi} with aggregate {best.get("score")}, expected the first optimum '
                               f'(index {first}, aggregate {target}); aggregates {aggs}'))
    return out


# ------------------------------------------------------------------------------------------------ generators
def _rand_spec(rng):
    r = rng.random()
    if r < 0.2:
        return ('int', rng.randint(-2, 5))
    if r < 0.35:
        return ('str', rng.choice(['ab', '', 'xyz']))
    if r < 0.6:
        return ('list', [rng.randint(0, 3) for _ in range(rng.randint(0, 3))])
    if r < 0.7:
        return ('tuple', [rng.randint(0, 3) for _ in range(rng.randint(0, 3))])
    if r < 0.8:
        return ('range', rng.randint(0, 3))
    if r < 0.88:
        return ('array', [rng.randint(0, 9) for _ in range(rng.randint(1, 3))])
    if r < 0.92:
        return rng.choice([('array0', rng.randint(0, 9)), ('oldseq', [rng.randint(0, 3) for _ in range(rng.randint(0, 3))]),
                           ('list', [[1], [2, 3]]), ('list', [2, 2.0, True])])
    return ('none',)


def histories(seed, budget, prop='C14'):
    rng = random.Random(seed)
    if prop == 'C14':
        specs = [('int', 4), ('str', 'ab'), ('list', [1, 2]), ('list', []), ('list', [7]), ('tuple', [1, 1]), ('range', 3),
                 ('array', [5, 6]), ('none',), ('array0', 7), ('oldseq', [3, 4]), ('list', [[1, 2], [3]]), ('list', [1, True, 1.0])]
        yield ('plist', [('new', None), ('build',), ('add', 'x', ('list', [1, 2, 3])), ('build',), ('add', 'y', ('str', 'ab')),
                         ('build',), ('add', 'x', ('list', [9])), ('build',), ('add', 3, ('int', 1)), ('remove', 'q'),
                         ('build',), ('remove', 'x'), ('build',), ('add', 'x', ('int', 0)), ('build',)])
        for a, b, c in itertools.permutations(specs, 3):
            if rng.random() < 0.25:
                yield ('plist', [('new', {'p': a, 'q': b}), ('build',), ('add', 'r', c), ('build',), ('remove', 'p'),
                                 ('build',), ('add', 'q', a), ('build',)])
        for _ in range(budget):
            ops = [('new', rng.choice([None, {'a': _rand_spec(rng)}, {'a': _rand_spec(rng), 'b': _rand_spec(rng)}]))]
            for _ in range(rng.randint(2, 8)):
                r = rng.random()
                if r < 0.45:
                    ops.append(('add', rng.choice(['a', 'b', 'c', 'd', 5]), _rand_spec(rng)))
                elif r < 0.6:
                    ops.append(('remove', rng.choice(['a', 'b', 'c', 'zz'])))
                else:
                    ops.append(('build',))
            ops.append(('build',))
            yield ('plist', ops)
    elif prop == 'C15':
        grids = [{'a': [1, 2], 'b': [0, 1]}, {'a': [1, 2, 3]}, {'a': 4}, {'a': [1, 2], 'stop': [1, 4]}, {},
                 {'a': [1, 1, 2], 'b': [True, 1.0]}, {'a': [[1, 2], [3, 4], [0, 0]], 'b': [0, 1]},
                 {'a': [1, 2], 'burn': [2], 'stop': [5]}, {'a': ['$array0', 7], 'b': [0, 1]},
                 {'a': ['$oldseq', [3, 4, 5]], 'b': [1]}]
        for g in grids:
            for reps in (1, 2):
                for max_t in (0, 1, 2, 3, 6):
                    for coll in ('rec', ['rec', 'rec2'], None):
                        yield ('batch', g, reps, max_t, coll, 1, None)
        for g in grids[:2]:
            for fail_at in ('first', 'last', 'first-stop', 'last-stop', 'first-lib-agent', 'last-lib-complete'):
                yield ('batch', g, 1, 3, 'rec', 1, fail_at)
        yield ('batch_pl', {'a': [1, 2], 'b': [0, 1]}, [('remove', 'b'), ('add', 'b', [5]), ('remove', 'a')], 1, 0, 1, 'sum')
        yield ('batch_pl', {'a': [1, 2, 3]}, [('add', 'b', [0, 1]), ('remove', 'a'), ('add', 'a', 7)], 2, 0, 1, 'sum')
        for procs in (2, 3):
            yield ('batch', grids[0], 2, 3, 'rec', procs, None)
            yield ('batch', grids[3], 1, 2, ['rec', 'rec2'], procs, None)
            yield ('batch', grids[0], 1, 3, 'rec', procs, 'first')
            yield ('batch', grids[0], 2, 0, 'rec', procs, None)          # every execution returns an empty record list
            yield ('batch', {'a': [1, 2], 'stop': [0, 2]}, 1, 3, 'rec', procs, None)
            yield ('batch', grids[0], 1, 3, 'rec', procs, 'last-stop')
            yield ('batch', grids[0], 1, 3, 'rec', procs, 'first-lib-agent')
            yield ('batch', grids[1], 1, 3, 'rec', procs, 'last-lib-complete')
            yield ('batch', grids[0], 1, 3, 'rec', procs, 'last-lib-component')
            yield ('batch', grids[0], 1, 3, 'rec', procs, 'first-lib-system')
            yield ('batch', grids[1], 2, 3, 'rec', procs, 'first-stop')
    else:
        grids = [{'a': [1, 2, 3]}, {'a': [3, 1, 2], 'b': [0, 1]}, {'a': [2, 2, 1, 1]}, {'a': 5}]
        for g in grids:
            for mode in range(8):
                for sname in ('sum', 'big', 'neg', 'tie', 'work'):
                    yield ('search', g, 2 if mode >= 6 else rng.choice([1, 2]), mode, 1, sname)
        for mode in range(8):
            for reps in (2, 3, 5):
                yield ('search', {'a': [1, 2, 3]}, reps, mode, 1, 'float')
        for mode in (0, 1, 2):
            yield ('search_pl', {'a': [3, 1, 2], 'b': [0, 1]}, [('remove', 'b'), ('add', 'b', [4, 0]), ('remove', 'a')],
                   1, mode, 1, 'sum')
            yield ('search_pl', {'a': [1, 2]}, [('add', 'b', [0, 1, 2]), ('remove', 'a'), ('add', 'a', [5, 0])],
                   2, mode, 1, 'work')
        for mode in (0, 1, 3, 5):
            # a step limit that binds, several repetitions: every repetition gets the whole limit
            yield ('search', {'a': [1, 2], 'stop': [6, 9]}, 3, mode, 1, 'work', 2)
            yield ('search', {'a': [2, 1], 'stop': [7]}, 2, mode, 2, 'work', 4)
        for mode in (0, 1, 3):
            yield ('search', grids[1], 2, mode, 2, 'sum')
            yield ('search', grids[0], 1, mode, 2, 'big')
