"""Tag-library histories (C19): real TagLibrary objects / the module-level library against an independent oracle.

history: ('local' | 'global', [ops])   ops: ('add', name) ('name', id) ('lookup', name) ('items',) ('len',)
         ('other_add', name)  - add to a second, unrelated library (independence)
"""
import random
import sys

sys.path.insert(0, '/verif')
from replayers import monitor    # noqa: E402

NAMES = ['A', 'B', 'PREY', 'NONE', 'A', 'add_tag', 'get_tag_name', 'itemize', '_tag_names', '_tag_counter',
         '__len__', '__class__', '__dict__', '__init__', 'x y', '', '0', 'None', 'self', 'tag_name', 'é',
         # names bound at module level in Tags.py: on the global library `Tags.<name>` finds the module global first
         'TagLibrary', '_module_library', '__file__', 'deprecated', 'DuplicateTagError', 'List', '__getattr__',
         '_internal', '__private',
         # builtins that Tags.py itself calls: a tag of that name must not get in their way
         'enumerate', 'hasattr', 'type', 'super', 'len', 'range', 'globals', '__sheep__']


def run_history(hist, props=None):
    import ECAgent.Tags as Tags
    where, ops = hist
    out = []
    if where == 'global':
        Tags._module_library = Tags.TagLibrary()
        lib = Tags._module_library
        add = Tags.add_tag
        name_of = Tags.get_tag_name
        items = Tags.itemize
        lookup = lambda n: getattr(Tags, n)          # noqa: E731
    else:
        if where == 'sub':
            # a user library class with members of its own (a method, a class attribute, a property): names that would
            # collide with them are rejected like the names of the base class's members
            class UserLib(Tags.TagLibrary):
                _verif_user = True
                COLOR = 'red'

                def describe(self):
                    return 'user library'

                @property
                def size(self):
                    return 'big'
            lib = UserLib()
        else:
            lib = Tags.TagLibrary()
        add = lambda n: lib.add_tag(n)               # noqa: E731
        name_of = lambda i: lib.get_tag_name(i)      # noqa: E731
        items = lambda: lib.itemize()                # noqa: E731
        lookup = lambda n: getattr(lib, n)           # noqa: E731
    other = Tags.TagLibrary()
    onames = ['NONE']
    names = ['NONE']
    for k, op in enumerate(ops):
        w = f'{where} library, after op {k} {op!r}'
        try:
            if op[0] == 'add':
                n = op[1]
                try:
                    add(n)
                    if n in names:
                        out.append(('C19', f'{w}: duplicate name accepted'))
                    names.append(n)
                except Tags.DuplicateTagError:
                    # a rejected name changes nothing (checked below); a fresh ordinary name must be accepted
                    if n not in names and not hasattr(type(lib), n) and n not in ('_tag_names', '_tag_counter') \
                            and not (where == 'global' and n in vars(Tags)):
                        out.append(('C19', f'{w}: fresh name {n!r} rejected'))
            elif op[0] == 'other_add':
                try:
                    other.add_tag(op[1])
                    onames.append(op[1])
                except Tags.DuplicateTagError:
                    pass
            elif op[0] == 'name':
                i = op[1]
                try:
                    r = name_of(i)
                    if not (0 <= i < len(names)) or r != names[i]:
                        out.append(('C19', f'{w}: id {i} -> {r!r}, expected {names[i] if 0 <= i < len(names) else "error"}'))
                except Tags.TagNotFoundError:
                    if 0 <= i < len(names):
                        out.append(('C19', f'{w}: id {i} of tag {names[i]!r} not found'))
            elif op[0] == 'lookup':
                n = op[1]
                try:
                    r = lookup(n)
                    if n in names:
                        if r != names.index(n):
                            out.append(('C19', f'{w}: name {n!r} -> {r!r}, expected id {names.index(n)}'))
                    elif where == 'global' and not n.startswith('__') and n not in vars(Tags):
                        out.append(('C19', f'{w}: unknown name {n!r} resolved to {r!r} instead of TagNotFoundError'))
                except Tags.TagNotFoundError:
                    if n in names:
                        out.append(('C19', f'{w}: tag {n!r} not found by name'))
                except AttributeError:
                    if n in names:
                        out.append(('C19', f'{w}: tag {n!r} not found by name'))
        except Exception as ex:
            out.append(('C19', f'{w}: the library broke: {type(ex).__name__}: {ex}'))
        # observers after every op
        try:
            it = items()
            if it != [(n, i) for i, n in enumerate(names)]:
                out.append(('C19', f'{w}: itemize() = {it}, expected {[(n, i) for i, n in enumerate(names)]}'))
            if len(lib) != len(names):
                out.append(('C19', f'{w}: len = {len(lib)}, expected {len(names)}'))
            for i, n in enumerate(names):
                if name_of(i) != n:
                    out.append(('C19', f'{w}: id {i} -> {name_of(i)!r}, expected {n!r}'))
                if lib.__dict__.get(n) != i:
                    out.append(('C19', f'{w}: name {n!r} -> {lib.__dict__.get(n)!r}, expected {i}'))
            if other.itemize() != [(n, i) for i, n in enumerate(onames)]:
                out.append(('C19', f'{w}: an unrelated library changed'))
        except Exception as ex:
            out.append(('C19', f'{w}: the library broke: {type(ex).__name__}: {ex}'))
        if len(out) > 4:
            break
    if where == 'global':
        Tags._module_library = Tags.TagLibrary()
    return out


def histories(seed, budget, prop='C19'):
    rng = random.Random(seed)
    for where in ('local', 'global'):
        yield (where, [('add', 'A'), ('add', 'B'), ('add', 'A'), ('name', 0), ('name', 1), ('name', 3), ('name', -1),
                       ('lookup', 'A'), ('lookup', 'B'), ('lookup', 'NONE'), ('other_add', 'Z'), ('add', 'NONE')])
        for n in NAMES:
            yield (where, [('add', 'A'), ('add', n), ('add', 'B'), ('add', n), ('name', 2), ('lookup', 'B'),
                           ('lookup', n), ('other_add', n), ('add', 'C'), ('lookup', n), ('len',)])
        yield (where, [('lookup', 'nope'), ('lookup', '_tag_names'), ('lookup', '_tag_counter')])
    for n in ('size', 'describe', 'COLOR', 'A', 'add_tag', '__len__'):
        yield ('sub', [('add', 'A'), ('add', n), ('add', 'B'), ('lookup', n), ('lookup', 'B'), ('name', 2), ('add', n),
                       ('other_add', n), ('lookup', n)])
    for _ in range(budget):
        ops = []
        for _ in range(rng.randint(2, 12)):
            r = rng.random()
            if r < 0.55:
                ops.append(('add', rng.choice(NAMES + ['T%d' % rng.randint(0, 5)])))
            elif r < 0.7:
                ops.append(('name', rng.randint(-2, 8)))
            elif r < 0.85:
                ops.append(('lookup', rng.choice(NAMES + ['zz'])))
            else:
                ops.append(('other_add', rng.choice(NAMES)))
        yield (rng.choice(['local', 'global']), ops)
