"""Grid-world cases (C09, C10, C11): real DiscreteWorld / LineWorld / GridWorld objects against brute-force oracles.

A "history" here is one JSON-able case:
  ('ids',   kind, W, H, D)                          C09: id <-> coordinates, get_cell inside / just outside
  ('nbr',   kind, W, H, D, mode, cx, cy, cz, radius, incl, rep)      C10 (rep: id | tuple | comp | compfrac)
  ('cells', kind, W, H, D, [ops...])                C11: ('add', name, source) ('remove', name) ('mutate', name)
            source: callable | list | array | const | lookup
"""
import itertools
import random
import sys

sys.path.insert(0, '/verif')
from replayers import monitor    # noqa: E402


def make(kind, W, H, D):
    from ECAgent.Core import Model
    import ECAgent.Environments as E
    m = Model(seed=3)
    base = E.LineWorld if kind == 'line' else (E.GridWorld if kind == 'grid' else E.DiscreteWorld)

    class UserWorld(base):
        # a user world that reports its size in its own units: the public accessor is the user's to override, the
        # cell table is built from the constructor's extents
        _verif_user = True

        def get_dimensions(self):
            return (7, 7, 7, 7)
    if kind == 'line':
        return UserWorld(m, W)
    if kind == 'grid':
        return UserWorld(m, W, H)
    return UserWorld(m, W, H, D)


def dims(W, H, D):
    return max(W, 1), max(H, 1), max(D, 1)


def oracle_id(x, y, z, W, H, D):
    w, h, d = dims(W, H, D)
    return z * w * h + y * w + x


def run_history(case, props=None):
    import ECAgent.Environments as E
    out = []
    kind = case[0]
    wk, W, H, D = case[1:5]
    try:
        env = make(wk, W, H, D)
    except Exception as ex:
        return [('C09', f'cannot build world {case[1:5]}: {type(ex).__name__}: {ex}')]
    w, h, d = dims(W, H, D)
    ncells = w * h * d
    if kind == 'ids':
        pos = list(env.cells['pos'])
        if len(pos) != ncells:
            out.append(('C09', f'{ncells} cells expected, position table has {len(pos)}'))
        seen = {}
        for z, y, x in itertools.product(range(d), range(h), range(w)):
            i = E.discrete_grid_pos_to_id(x, y, env.width, z, env.height)
            if not (0 <= i < ncells):
                out.append(('C09', f'id of {(x, y, z)} is {i}, outside 0..{ncells - 1}'))
                continue
            if i in seen:
                out.append(('C09', f'cells {seen[i]} and {(x, y, z)} share id {i}'))
            seen[i] = (x, y, z)
            if i < len(pos) and tuple(pos[i]) != (x, y, z):
                out.append(('C09', f'position table maps id {i} to {tuple(pos[i])}, expected {(x, y, z)}'))
            try:
                row = env.get_cell(x, y, z)
                if tuple(row['pos']) != (x, y, z):
                    out.append(('C09', f'get_cell{(x, y, z)} returned the row of {tuple(row["pos"])}'))
            except Exception as ex:
                out.append(('C09', f'get_cell{(x, y, z)} on {wk} {W, H, D} raised {type(ex).__name__}'))
            if len(seen) <= 4:
                # integers come in several kinds (numpy indices from argwhere, bools): the same cell must come back
                import numpy as np
                for conv in (np.int64, np.int32, (bool if max(x, y, z) <= 1 else int)):
                    try:
                        row = env.get_cell(conv(x), conv(y), conv(z))
                        if tuple(row['pos']) != (x, y, z):
                            out.append(('C09', f'get_cell with {conv.__name__} coordinates {(x, y, z)} returned the row of '
                                               f'{tuple(row["pos"])}'))
                    except Exception as ex:
                        out.append(('C09', f'get_cell with {conv.__name__} coordinates {(x, y, z)} raised {type(ex).__name__}'))
            if len(out) > 5:
                return out
        outside = [(x, y, z) for x in range(-1, w + 1) for y in range(-1, h + 1) for z in range(-1, d + 1)
                   if not (0 <= x < w and 0 <= y < h and 0 <= z < d)]
        # just outside by less than a cell, and infinitely far: numbers of any kind are compared, never truncated first
        import math
        from fractions import Fraction
        for ax in range(3):
            for v in (-0.5, -1e-9, Fraction(-1, 3), math.inf, -math.inf):
                outside.append(tuple(v if j == ax else 0 for j in range(3)))
        for (x, y, z) in outside:
            try:
                env.get_cell(x, y, z)
                out.append(('C09', f'get_cell{(x, y, z)} outside the grid {W, H, D} was accepted'))
            except IndexError:
                pass
            except Exception as ex:
                out.append(('C09', f'get_cell{(x, y, z)} outside raised {type(ex).__name__}, not IndexError'))
    elif kind == 'relook':
        # C09 over a history: look a cell up, write to the returned row / update the table in place, look it up again
        import warnings
        cells = [(x, y, z) for z, y, x in itertools.product(range(d), range(h), range(w))][:6]
        env.add_cell_component('c', [100 + i for i in range(ncells)])
        # component names are arbitrary strings: adding / re-adding / removing them must leave the position table alone
        for nm in ('deposit', 'position', 'po', 's'):
            try:
                env.add_cell_component(nm, [7] * ncells)
                env.add_cell_component(nm, [8 + i for i in range(ncells)])      # same name again: replaces
                x0, y0, z0 = cells[-1]
                v = env.get_cell(x0, y0, z0)[nm]
                if getattr(v, 'shape', ()) not in ((), None) or int(v) != 8 + oracle_id(x0, y0, z0, W, H, D):
                    out.append(('C09', f'after adding {nm!r} twice get_cell{(x0, y0, z0)}[{nm!r}] = {v!r:.60}, the table '
                                       f'holds one value {8 + oracle_id(x0, y0, z0, W, H, D)}'))
                env.remove_cell_component(nm)
                pos_now = [tuple(p) for p in env.cells['pos']]
                if pos_now != [(x, y, z) for z, y, x in itertools.product(range(d), range(h), range(w))]:
                    out.append(('C09', f'after removing {nm!r} the position table changed'))
                if 'c' not in env.cells.columns:
                    out.append(('C09', f'removing {nm!r} also removed component c'))
            except Exception as ex:
                out.append(('C09', f'add/re-add/remove of cell component {nm!r} on {wk} {W, H, D}: {type(ex).__name__}: {ex}'))
            if out:
                return out
        for (x, y, z) in cells:
            i = oracle_id(x, y, z, W, H, D)
            try:
                row = env.get_cell(x, y, z)
                with warnings.catch_warnings():
                    warnings.simplefilter('ignore')
                    try:
                        row['c'] = -1          # the caller's row object is the caller's business
                        row['pos'] = (9, 9, 9)
                    except Exception:
                        pass
                again = env.get_cell(x, y, z)
                if tuple(again['pos']) != (x, y, z) or int(again['c']) != 100 + i:
                    out.append(('C09', f'get_cell{(x, y, z)} after writing to the row returned earlier: pos={again["pos"]} '
                                       f'c={again["c"]}, the table holds pos={(x, y, z)} c={100 + i}'))
                env.cells.at[i, 'c'] = 500 + i     # in-place update through the documented table
                third = env.get_cell(x, y, z)
                if int(third['c']) != 500 + i:
                    out.append(('C09', f'get_cell{(x, y, z)} after an in-place table update returns c={third["c"]}, the '
                                       f'table holds {500 + i}'))
            except Exception as ex:
                out.append(('C09', f'relook {(x, y, z)} on {wk} {W, H, D} raised {type(ex).__name__}: {ex}'))
            if len(out) > 3:
                break
    elif kind == 'twin':
        # C09 with two worlds of one shape alive at once (a batch of models): each world's rows are its own
        env2 = make(wk, W, H, D)
        try:
            env.add_cell_component('c', [100 + i for i in range(ncells)])
            env2.add_cell_component('c', [900 + i for i in range(ncells)])
            env2.add_cell_component('only2', [1] * ncells)
            env3 = make(wk, W, H, D)
            if list(env3.cells.columns) != ['pos']:
                out.append(('C09', f'a fresh world starts with cell components {list(env3.cells.columns)}'))
            for z, y, x in itertools.product(range(d), range(h), range(w)):
                i = oracle_id(x, y, z, W, H, D)
                ra, rb = env.get_cell(x, y, z), env2.get_cell(x, y, z)
                if int(ra['c']) != 100 + i or 'only2' in ra.index or tuple(ra['pos']) != (x, y, z):
                    out.append(('C09', f'get_cell{(x, y, z)} of the first world returned {dict(ra)}, its own row holds '
                                       f'c={100 + i} only'))
                if int(rb['c']) != 900 + i or int(rb['only2']) != 1:
                    out.append(('C09', f'get_cell{(x, y, z)} of the second world returned {dict(rb)}'))
                if len(out) > 3:
                    break
        except Exception as ex:
            out.append(('C09', f'two worlds of shape {wk} {W, H, D}: {type(ex).__name__}: {ex}'))
    elif kind == 'nbr':
        mode, cx, cy, cz, radius, incl, rep = case[5:12]
        incl_arg = incl
        if len(case) > 12 and case[12] == 'npflag':
            import numpy as np
            incl_arg = (np.True_ if incl else np.False_) if (cx + cy + cz + radius) % 2 == 0 else (1 if incl else 0)
        centre_t = (cx, cy, cz)
        cid = oracle_id(cx, cy, cz, W, H, D)
        if rep == 'id':
            centre = cid
        elif rep == 'tuple':
            centre = centre_t
        else:
            fr = 0.5 if rep == 'compfrac' else (0.9999999 if rep == 'compnear' else 0.0)
            centre = E.PositionComponent(None, env.model, cx + fr, cy + fr, cz + fr)
        exp = []
        for z, y, x in itertools.product(range(d), range(h), range(w)):
            dx, dy, dz = abs(x - cx), abs(y - cy), abs(z - cz)
            dist = max(dx, dy, dz) if mode == 'moore' else dx + dy + dz
            if dist <= radius and (incl or (x, y, z) != centre_t):
                exp.append((x, y, z))
        for entry in ('specific', 'generic'):
            for ret in (int, tuple):
                try:
                    if entry == 'specific':
                        f = env.get_moore_neighbours if mode == 'moore' else env.get_neumann_neighbours
                        got = f(centre, radius, incl_arg, ret)
                    else:
                        got = env.get_neighbours(centre, radius, incl_arg, ret, mode)
                except Exception as ex:
                    out.append(('C10', f'{entry} {mode} query raised {type(ex).__name__}: {ex}'))
                    continue
                want = exp if ret is tuple else [oracle_id(x, y, z, W, H, D) for x, y, z in exp]
                if [tuple(g) if ret is tuple and hasattr(g, '__iter__') else g for g in got] != want:
                    out.append(('C10', f'{entry} {mode} r={radius} centre={centre_t} incl={incl} ret={ret.__name__}: '
                                       f'{list(got)[:12]} expected {want[:12]}'))
                if ret is int and list(got) != sorted(set(got)):
                    out.append(('C10', 'ids not strictly ascending'))
                # the answer belongs to the caller: reordering / extending it must not show in any later answer
                if isinstance(got, list):
                    got.reverse()
                    got.append(-5)
    elif kind == 'cells':
        import numpy as np
        ops = case[5]
        pos = [tuple(p) for p in env.cells['pos']]
        expect = {}
        sources = {}
        for op in ops:
            if op[0] == 'add':
                _, name, src = op
                if src == 'reentrant':
                    # a generator that lazily creates the layer it derives from, through the same public call
                    def gen(p, cells, _env=env, _n=name):
                        if _n + '_base' not in _env.cells:
                            _env.add_cell_component(_n + '_base', [5] * ncells)
                        return 1 + len(p)
                    vals = [4] * ncells
                    arg = gen
                    expect[name + '_base'] = [5] * ncells
                elif src == 'callable':
                    def gen(p, cells):
                        return ('v', name) + tuple(p)
                    vals = [('v', name) + p for p in pos]
                    arg = gen
                elif src == 'list':
                    arg = [100 + i for i in range(ncells)]
                    vals = list(arg)
                elif src == 'mixedlist':
                    # a list is taken as it is: element kinds survive (ints stay ints next to strings, tuples stay tuples)
                    pool = [0, 'a', 1.5, (1, 2), None, True]
                    arg = [pool[i % len(pool)] for i in range(ncells)]
                    vals = list(arg)
                elif src == 'array':
                    arg = np.arange(ncells) * 2 + 7
                    vals = [int(v) for v in arg]
                elif src == 'const':
                    arg = E.ConstantGenerator(42)
                    vals = [42] * ncells
                elif src in ('consttuple', 'constfit'):
                    # a constant is a constant, also when it is a sequence (of any length, the number of cells included)
                    val = (255, 128, 0) if src == 'consttuple' else tuple(range(ncells))
                    arg = E.ConstantGenerator(val)
                    vals = [val] * ncells
                else:
                    # lookup table of the world's dimensionality
                    if wk == 'line':
                        table = [10 + x for x in range(w)]
                        vals = [table[p[0]] for p in pos]
                    elif wk == 'grid':
                        table = [[10 * x + y for y in range(h)] for x in range(w)]
                        vals = [table[p[0]][p[1]] for p in pos]
                    else:
                        table = [[[100 * x + 10 * y + z for z in range(d)] for y in range(h)] for x in range(w)]
                        vals = [table[p[0]][p[1]][p[2]] for p in pos]
                    arg = E.LookupGenerator(table)
                try:
                    env.add_cell_component(name, arg)
                except Exception as ex:
                    out.append(('C11', f'add_cell_component({name}, {src}) on {wk} {W, H, D} raised '
                                       f'{type(ex).__name__}: {ex}'))
                    continue
                expect[name] = vals
                sources[name] = arg
            elif op[0] == 'mutate':
                arg = sources.get(op[1])
                if isinstance(arg, list) and arg:
                    arg[0] = -999
                elif arg is not None and hasattr(arg, 'shape') and len(arg):
                    arg[0] = -999
            elif op[0] == 'remove':
                name = op[1]
                before = monitor.fingerprint(env.cells)
                try:
                    env.remove_cell_component(name)
                    if name not in expect:
                        out.append(('C11', f'removing unknown cell component {name} accepted'))
                    expect.pop(name, None)
                except Exception as ex:
                    if name in expect or type(ex).__name__ != 'ComponentNotFoundError':
                        out.append(('C11', f'remove_cell_component({name}) raised {type(ex).__name__}'))
                    if monitor.fingerprint(env.cells) != before:
                        out.append(('C11', 'rejected removal changed the cells'))
            # observe
            if [tuple(p) for p in env.cells['pos']] != pos:
                out.append(('C11', f'after {op}: the set of cells changed'))
            cols = [c for c in env.cells.columns if c != 'pos']
            if sorted(cols) != sorted(expect):
                out.append(('C11', f'after {op}: cell components {cols}, expected {sorted(expect)}'))
            for name, vals in expect.items():
                if name in env.cells:
                    got = [tuple(v) if isinstance(v, tuple) else (int(v) if hasattr(v, '__int__') and not isinstance(v, (tuple, float, bool)) and not isinstance(vals[i_], (float, bool, str)) else v)
                           for i_, v in enumerate(env.cells[name])]
                    if any(type(g) is not type(e) and not (isinstance(g, int) and isinstance(e, int)) for g, e in zip(got, vals)):
                        out.append(('C11', f'after {op}: component {name} changed the kind of its values: '
                                           f'{[type(g).__name__ for g in got][:6]} from {[type(e).__name__ for e in vals][:6]}'))
                    if got != vals:
                        out.append(('C11', f'after {op}: component {name} holds {got[:6]}..., expected {vals[:6]}...'))
            for i, p in enumerate(pos[:4]):
                try:
                    row = env.get_cell(*p)
                    for name, vals in expect.items():
                        rv = row[name]
                        rv = tuple(rv) if isinstance(rv, tuple) else (rv.item() if hasattr(rv, 'item') else rv)
                        if rv != vals[i] and not (rv is None and vals[i] is None):
                            out.append(('C11', f'get_cell{p}[{name}] = {rv}, expected {vals[i]}'))
                except Exception:
                    pass
            if len(out) > 5:
                break
    return out


SHAPES = [('discrete', W, H, D) for W, H, D in itertools.product(range(0, 4), repeat=3)] + \
         [('line', W, 0, 0) for W in (1, 2, 5)] + [('grid', W, H, 0) for W, H in ((1, 1), (2, 3), (4, 2), (3, 3))]


def histories(seed, budget, prop='C09'):
    rng = random.Random(seed)
    if prop == 'C09':
        for s in SHAPES:
            yield ('ids',) + s
        for s in [('line', 3, 0, 0), ('grid', 2, 3, 0), ('discrete', 2, 0, 3), ('discrete', 2, 2, 2)]:
            yield ('relook',) + s
            yield ('twin',) + s
        for _ in range(budget // 20):
            yield ('ids', 'discrete', rng.randint(0, 6), rng.randint(0, 6), rng.randint(0, 6))
    elif prop == 'C10':
        shapes = [s for s in SHAPES if s[1] <= 3 and s[2] <= 3 and s[3] <= 3]
        n = 0
        for s in shapes:
            w, h, d = dims(*s[1:])
            for mode in ('moore', 'neumann'):
                for (cx, cy, cz) in {(0, 0, 0), (w - 1, h - 1, d - 1), (w // 2, h // 2, d // 2)}:
                    for radius in (0, 1, 2, 7):
                        for incl in (False, True):
                            rep = ('id', 'tuple', 'comp', 'compfrac', 'compnear')[n % 5]
                            if s[0] != 'discrete' and rep == 'id':
                                pass
                            n += 1
                            yield ('nbr',) + s + (mode, cx, cy, cz, radius, incl, rep)
                            if n % 3 == 0:
                                yield ('nbr',) + s + (mode, cx, cy, cz, radius, incl, rep, 'npflag')
        for _ in range(budget):
            W, H, D = rng.randint(0, 5), rng.randint(0, 5), rng.randint(0, 4)
            w, h, d = dims(W, H, D)
            yield ('nbr', 'discrete', W, H, D, rng.choice(['moore', 'neumann']), rng.randrange(w), rng.randrange(h),
                   rng.randrange(d), rng.randint(0, 6), rng.random() < 0.5, rng.choice(['id', 'tuple', 'comp', 'compfrac', 'compnear']))
    else:
        srcs = ['callable', 'list', 'array', 'const', 'lookup']
        for s in [x for x in SHAPES if x[1] <= 3 and x[2] <= 3 and x[3] <= 2][::4]:
            yield ('cells',) + s + ([('add', 'r', 'reentrant'), ('add', 'q', 'list'), ('remove', 'r_base'), ('remove', 'r')],)
        for s in [x for x in SHAPES if x[1] <= 3 and x[2] <= 3 and x[3] <= 2][::3]:
            yield ('cells',) + s + ([('add', 'k', 'consttuple'), ('add', 'f', 'constfit'), ('remove', 'k')],)
            yield ('cells',) + s + ([('add', 'm', 'mixedlist'), ('remove', 'mask'), ('add', 'mask', 'const'), ('remove', 'mask'),
                                     ('remove', 'mask'), ('remove', 'size'), ('remove', 'values'), ('remove', 'm')],)
        for s in [x for x in SHAPES if x[1] <= 3 and x[2] <= 2 and x[3] <= 2]:
            for a, b in itertools.permutations(srcs, 2):
                yield ('cells',) + s + ([('add', 'p', a), ('mutate', 'p'), ('add', 'q', b), ('mutate', 'q'), ('remove', 'zz'),
                                         ('remove', 'p'), ('add', 'r', a), ('remove', 'q'), ('remove', 'q')],)
            for a, b in itertools.permutations(srcs, 2):
                # the same name added again replaces the component (one column, the new values)
                yield ('cells',) + s + ([('add', 'p', a), ('add', 'q', a), ('add', 'p', b), ('remove', 'p'), ('remove', 'p')],)
                yield ('cells',) + s + ([('add', 'deposit', a), ('add', 'po', b), ('remove', 'deposit'), ('remove', 'po')],)
