"""Concrete reading of the sidecar contracts: run-time monitors on the real functions (/venv/bin/python).

install(props) wraps every contracted repository function; each call evaluates `requires` on the real
pre-state, snapshots `old`, runs the real code, and evaluates the same predicate text the prover used
(`ensures` / `raises`).  A False clause is recorded in FAILURES with the call that produced it.
Used for: replay of counter-models, small-scope witness search, run-time monitoring of the test-suite.
Never counted as proof.
"""
import functools
import importlib
import inspect
import sys
import traceback

sys.path.insert(0, '/verif')
from pyvc import specs as S          # noqa: E402

FAILURES = []
EVALS = {'calls': 0, 'clauses': 0, 'pre_false': 0, 'spec_errors': 0}
_installed = []
ACTIVE = True
_depth = 0
_busy = False
CURRENT = {}       # function key -> did the innermost monitored call satisfy its precondition?


class Snap:
    """Attribute snapshot of one object (containers copied two levels, elements by identity)."""
    pass


class NSnap:
    """Snapshot of an object whose instance __dict__ *is* its state (TagLibrary): the snapshot's __dict__ holds
    exactly the entries of the original; bookkeeping lives in slots."""
    __slots__ = ('orig__', 'cls__', '__dict__')


class SList(list):
    pass


class SDict(dict):
    pass


def _copy_container(v, depth=2, memo=None, odepth=2):
    """Copy of a container (two levels); elements stay the real objects, but repository objects among them get
    their own attribute snapshot in `memo` (reachable through was(old, obj))."""
    if isinstance(v, list):
        r = SList((_copy_container(x, depth - 1, memo, odepth) if depth > 1 else x) for x in v)
        r.orig_id__ = getattr(v, 'orig_id__', id(v))
        return r
    if isinstance(v, dict):
        r = SDict((k, (_copy_container(x, depth - 1, memo, odepth) if depth > 1 else x)) for k, x in v.items())
        r.orig_id__ = getattr(v, 'orig_id__', id(v))
        return r
    if memo is not None and odepth > 0 and _is_repo_obj(v):
        em = memo.setdefault('elems__', {})
        if id(v) not in em:
            snapshot(v, em, min(odepth, 1))      # element objects: their own attributes only (for was(old, x))
    return v


def _attr_names(obj):
    names = []
    for c in type(obj).__mro__:
        names.extend(getattr(c, '__slots__', ()) or ())
    if hasattr(obj, '__dict__'):
        names.extend(obj.__dict__.keys())
    return names


def _is_repo_obj(v):
    if isinstance(v, (int, float, str, bytes, tuple)):
        return False
    m = getattr(type(v), '__module__', '') or ''
    return m.startswith('ECAgent') or getattr(type(v), '_verif_user', False)


def snapshot(v, memo=None, depth=3):
    memo = {} if memo is None else memo
    if isinstance(v, (list, dict)):
        return _copy_container(v, 2, memo, depth)
    if isinstance(v, type):
        if hasattr(v, '_components'):
            if id(v) in memo:
                return memo[id(v)]
            s = Snap()
            memo[id(v)] = s
            s._components = dict(v._components)
            s.components = s._components
            s._tag = v._tag
            s.tag = v._tag
            s._id = v._id
            s.id = v._id
            s.orig__ = v
            return s
        return v
    if not _is_repo_obj(v) or depth <= 0:
        return v
    if id(v) in memo:
        return memo[id(v)]
    if any(c_.__name__ == 'TagLibrary' for c_ in type(v).__mro__):
        s = NSnap()
        memo[id(v)] = s
        s.orig__ = v
        s.cls__ = type(v)
        for k, x in v.__dict__.items():
            s.__dict__[k] = _copy_container(x, 2, memo, 0) if isinstance(x, (list, dict)) else x
        return s
    s = Snap()
    memo[id(v)] = s
    s.orig__ = v
    s.cls__ = type(v)
    for n in _attr_names(v):
        try:
            x = getattr(v, n)
        except AttributeError:
            continue
        if isinstance(x, (list, dict)):
            setattr(s, n, _copy_container(x, 2, memo, depth - 1))
        elif _is_repo_obj(x):
            setattr(s, n, snapshot(x, memo, depth - 1))
        else:
            setattr(s, n, x)
    return s


_KEEP = []


def _collect_ids(v, acc, seen=None, depth=6, keep=None):
    """ids of every container / object reachable before the call (for is_fresh).  Every visited object is kept
    alive in `keep` until the postcondition has been evaluated: a temporary met on the way (the argument tuple,
    a list built by a property) would otherwise be freed at once, and an allocation made by the call could
    reuse its address and be taken for an old object."""
    seen = set() if seen is None else seen
    keep = _KEEP if keep is None else keep
    if isinstance(v, (int, float, str, bool, type(None))) or id(v) in seen or depth <= 0:
        return
    seen.add(id(v))
    keep.append(v)
    if isinstance(v, (list, tuple)):
        acc.add(id(v))
        for x in v:
            _collect_ids(x, acc, seen, depth - 1, keep)
    elif isinstance(v, dict):
        acc.add(id(v))
        for x in v.values():
            _collect_ids(x, acc, seen, depth - 1, keep)
    elif isinstance(v, type):
        if hasattr(v, '_components'):
            _collect_ids(v._components, acc, seen, depth - 1, keep)
    elif _is_repo_obj(v):
        acc.add(id(v))
        for n in _attr_names(v):
            try:
                _collect_ids(getattr(v, n), acc, seen, depth - 1, keep)
            except AttributeError:
                pass


def fingerprint(v, seen=None, depth=6):
    """Structural fingerprint of everything reachable (identity for objects) - 'nothing changed' oracle."""
    seen = {} if seen is None else seen
    if isinstance(v, (int, float, str, bool, type(None))):
        return v
    if isinstance(v, tuple):
        return tuple(fingerprint(x, seen, depth) for x in v)
    if id(v) in seen or depth <= 0:
        return ('ref', id(v))
    seen[id(v)] = True
    if isinstance(v, list):
        return ('list', id(v), tuple(fingerprint(x, seen, depth - 1) for x in v))
    if isinstance(v, dict):
        return ('dict', id(v), tuple((fingerprint(k, seen, depth - 1), fingerprint(x, seen, depth - 1))
                                     for k, x in v.items()))
    if isinstance(v, type):
        if hasattr(v, '_components'):
            return ('class', id(v), fingerprint(v._components, seen, depth - 1), v._tag)
        return ('type', id(v))
    if _is_repo_obj(v):
        out = []
        for n in _attr_names(v):
            try:
                x = getattr(v, n)
            except AttributeError:
                out.append((n, '<unset>'))
                continue
            if n in ('random', 'logger'):
                continue
            out.append((n, fingerprint(x, seen, depth - 1)))
        return ('obj', id(v), tuple(out))
    if type(v).__name__ == 'DataFrame':
        try:
            return ('df', id(v), tuple(v.columns), tuple(map(tuple, v.values.tolist())))
        except Exception:
            return ('df', id(v))
    return ('opaque', id(v))


def _call_pred(pred, env):
    names = [a for a in inspect.signature(pred).parameters]
    EVALS['clauses'] += 1
    return pred(*[env[n] for n in names])


def _fail(key, kind, label, env, extra=None):
    rec = dict(function=key, kind=kind, clause=label, args={k: _short(v) for k, v in env.items()
                                                             if k not in ('old',)}, extra=extra)
    FAILURES.append(rec)


def _short(v):
    try:
        r = repr(v)
    except Exception:
        r = f'<{type(v).__name__}>'
    return r[:160]


def resolve(key):
    mod, _, qual = key.partition('.')
    m = importlib.import_module('ECAgent.' + mod)
    obj = m
    parts = qual.split('.')
    for p in parts[:-1]:
        obj = getattr(obj, p)
    return obj, parts[-1]


def make_wrapper(key, cands, real, props):
    sig = inspect.signature(real)
    state = {}

    @functools.wraps(real)
    def wrapper(*args, **kwargs):
        global _depth, _busy
        if not ACTIVE or _busy:
            return real(*args, **kwargs)
        _busy = True
        try:
            prep = _before(args, kwargs)
        finally:
            _busy = False
        if prep is None:
            return real(*args, **kwargs)
        env, env2, fp_before = prep
        _depth += 1
        try:
            result = real(*args, **kwargs)
        except Exception as ex:
            _depth -= 1
            _busy = True
            try:
                _after_exc(ex, env, env2, fp_before)
            finally:
                _busy = False
            raise
        _depth -= 1
        _busy = True
        try:
            _after_ok(result, env, env2)
        finally:
            _busy = False
        return result

    def _before(args, kwargs):
        try:
            ba = sig.bind(*args, **kwargs)
            ba.apply_defaults()
        except TypeError:
            return None
        env = dict(ba.arguments)
        for k, p in sig.parameters.items():
            if p.kind == p.VAR_POSITIONAL:
                env[k] = list(env.get(k, ()))
        EVALS['calls'] += 1
        if any(c.ghost_init for c in cands):
            S.GHOST.reset()
        CURRENT[key] = False
        # ---- pick the contract (base or variant) whose parameter types and requires hold
        chosen = None
        for c in cands:
            if not _types_ok(c, env):
                continue
            pre_ok = True
            try:
                for pred in c.requires:
                    if not _call_pred(pred, env):
                        pre_ok = False
                        break
            except Exception:
                pre_ok = False
                EVALS['spec_errors'] += 1
            if pre_ok:
                chosen = c
                break
        if chosen is None:
            EVALS['pre_false'] += 1
            return None
        c = chosen
        state['c'] = c
        CURRENT[key] = True
        memo = {}
        old = S.Old(**{k: snapshot(v, memo) for k, v in env.items()})
        old.keep__ = []
        _seen = set()
        for _v in list(env.values()):
            _collect_ids(_v, old.ids__, _seen, 6, old.keep__)
        em = memo.pop('elems__', {})
        while 'elems__' in em:
            em.update(em.pop('elems__'))
        old.snaps__ = {**em, **memo}
        fp_before = None
        if c.raises:
            fp_before = fingerprint(tuple(env.values()))
        env2 = dict(env)
        env2['old'] = old
        if c.ghost_init:
            S.GHOST.reset()
        return env, env2, fp_before

    def _after_exc(ex, env, env2, fp_before):
        c = state['c']
        if True:
            name = type(ex).__name__
            rd = c.raises.get(name)
            if rd is None:
                for cand in type(ex).__mro__:
                    if cand.__name__ in c.raises:
                        rd = c.raises[cand.__name__]
                        name = cand.__name__
                        break
            if getattr(ex, '_verif_user', False):
                return
            if rd is None:
                if name not in c.implicit:
                    _fail(key, 'raises', f'no-undeclared-exception:{name}', env, extra=repr(ex)[:200])
                return
            try:
                if rd.get('when') is not None and not _call_pred(rd['when'], env2):
                    _fail(key, 'raises', f'raises-only-when:{name}:{rd["when"].__name__}', env)
                for tag, preds in (rd.get('ensures') or {}).items():
                    if props and tag not in props:
                        continue
                    for pred in preds:
                        _eval_clauses(key, 'xpost', f'xpost:{name}:', pred, env2)
                if not rd.get('modifies') and fingerprint(tuple(env.values())) != fp_before:
                    _fail(key, 'frame', f'frame:{name}:state-changed', env)
            except Exception:
                EVALS['spec_errors'] += 1
                _fail(key, 'spec-error', traceback.format_exc()[-300:], env)

    def _after_ok(result, env, env2):
        c = state['c']
        env2['result'] = result
        try:
            for exc, rd in c.raises.items():
                if rd.get('always'):
                    _fail(key, 'raises', f'raises-always:{exc}:normal-exit', env)
                mustp = rd.get('must') or rd.get('when')
                if mustp is not None and rd.get('iff', True) and _call_pred(mustp, env2):
                    _fail(key, 'raises', f'raises-iff:{exc}:normal-exit', env)
            for tag, preds in c.ensures.items():
                if props and tag not in props:
                    continue
                for pred in preds:
                    _eval_clauses(key, 'post', 'post:', pred, env2)
        except Exception:
            EVALS['spec_errors'] += 1
            _fail(key, 'spec-error', traceback.format_exc()[-300:], env)
    wrapper._verif_real = real
    return wrapper


_PY = {'int': int, 'str': str, 'bool': bool}


def _types_ok(c, env):
    for name, t in c.params.items():
        name = name.lstrip('*')
        if name not in env:
            continue
        v = env[name]
        if t == 'int' and (not isinstance(v, int) or isinstance(v, bool)):
            return False
        if t == 'str' and not isinstance(v, str):
            return False
        if t == 'bool' and not isinstance(v, bool):
            return False
        if t == 'num' and (not isinstance(v, (int, float)) or isinstance(v, bool)):
            return False
    return True


def _eval_clauses(key, kind, prefix, pred, env):
    """Evaluate a predicate; on failure find the failing top-level conjunct for the label."""
    ok = _call_pred(pred, env)
    if ok:
        return
    label = pred.__name__
    try:
        import ast
        node = S.pred_ast(pred)
        body = [s for s in node.body if not (isinstance(s, ast.Expr) and isinstance(s.value, ast.Constant))]
        if all(isinstance(s, ast.Assign) for s in body[:-1]) and isinstance(body[-1], ast.Return) \
                and isinstance(body[-1].value, ast.BoolOp) and isinstance(body[-1].value.op, ast.And):
            names = [a.arg for a in node.args.args]
            loc = {n: env[n] for n in names}
            g = dict(pred.__globals__)
            for s in body[:-1]:
                exec(compile(ast.Module(body=[s], type_ignores=[]), '<spec>', 'exec'), g, loc)
            g.update(loc)
            for k, conj in enumerate(body[-1].value.values):
                v = eval(compile(ast.Expression(body=conj), '<spec>', 'eval'), g, loc)
                if not v:
                    label = f'{pred.__name__}[{k}]'
                    break
    except Exception:
        pass
    _fail(key, kind, prefix + label, env)


def install(reg, props=None, only=None):
    """Wrap every checked contract's function (base variant only)."""
    for full, c in reg.contracts.items():
        if c.kind != 'checked' or c.variant or '@' in full or not c.native:
            continue
        if only and full not in only:
            continue
        if props and not (set(props) & (set(c.props) | set(c.ensures))):
            continue
        try:
            owner, name = resolve(full)
            real = owner.__dict__[name] if isinstance(owner, type) else getattr(owner, name)
        except Exception:
            continue
        if isinstance(real, (staticmethod, classmethod, property)) or getattr(real, '_verif_real', None):
            continue
        if not inspect.isfunction(real):
            continue
        cands = [c] + [v for k2, v in reg.contracts.items() if v.variant and k2.split('#')[0] == full
                       and v.kind == 'checked' and v.native]
        w = make_wrapper(full, cands, real, props)
        setattr(owner, name, w)
        _installed.append((owner, name, real))


def uninstall():
    while _installed:
        owner, name, real = _installed.pop()
        setattr(owner, name, real)
