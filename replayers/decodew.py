"""Decode histories (C18): real Decoder.decode on in-memory descriptions, against the documented lifecycle.

history: ('decode', [desc, desc, ...])  - descriptions decoded one after another in the same process
desc: dict(pre=bool, post=bool, mod=str ('a' | 'b'), systems=[dict(id, prio, pre, post, mod)],
           groups=[dict(n, pre, post, mod)])
Two helper modules replayers.dmod_a / replayers.dmod_b define classes with the same names (module resolution).
"""
import random
import sys
import types

sys.path.insert(0, '/verif')
from replayers import monitor    # noqa: E402

LOG = []


def _make_module(tag):
    from ECAgent.Core import Model, System, Agent
    name = 'replayers.dmod_' + tag
    if name in sys.modules:
        return sys.modules[name]
    mod = types.ModuleType(name)

    class DModel(Model):
        _verif_user = True

        @staticmethod
        def decode(params):
            m = DModel(seed=params.get('seed', 1))
            m.tagmod = tag
            LOG.append(('model', tag, None))
            return m

    class DSystem(System):
        _verif_user = True

        def execute(self):
            pass

        @staticmethod
        def decode(params):
            LOG.append(('system', tag, params['id'], params.get('model')))
            if tag == 'pop':
                # user code that consumes the entries it was handed (pop before Cls(**params)): the dict is its own
                kw = {k: params.pop(k) for k in ('frequency', 'start', 'end') if k in params}
                return DSystem(params.pop('id'), params.pop('model'), priority=params.pop('priority', 0), **kw)
            kw = {k: params[k] for k in ('frequency', 'start', 'end') if k in params}
            return DSystem(params['id'], params['model'], priority=params.get('priority', 0), **kw)

    class DAgent(Agent):
        _verif_user = True

        @staticmethod
        def decode(params):
            LOG.append(('agent', tag, params['prefix'], params.get('agent_index'), params.get('model')))
            return DAgent(params['prefix'] + str(params['agent_index']), params['model'])

    def hook(params):
        LOG.append(('hook', tag, params['name'], params.get('model')))
        if tag == 'swap' and str(params['name']).startswith('pre_grp0') and params.get('model') is not None:
            # user code installs the environment the agents are to live in just before they are created
            from ECAgent.Core import Environment
            mdl = params['model']
            mdl.environment = Environment(mdl)
        if tag == 'pop':
            params.clear()

    class _Callable:
        def __call__(self, params):
            hook(params)

        def method(self, params):
            hook(params)
    import functools
    mod.hook_obj = _Callable()                       # hooks may be any callable the name denotes:
    mod.hook_method = _Callable().method             # a callable object, a bound method, a partial
    mod.hook_partial = functools.partial(lambda extra, params: hook(params), 0)

    if tag == 'lazy':
        # the agent class of this module only becomes resolvable through the group's own pre hook (a legal description:
        # resolution belongs to "creation", which comes after the pre hook)
        def lazy_hook(params):
            hook(params)
            if str(params['name']).startswith('pre_grp'):
                mod.DAgent = DAgent
            elif str(params['name']).startswith('post_grp') and hasattr(mod, 'DAgent'):
                del mod.DAgent
        mod.lazy_hook = lazy_hook
    for c_ in (DModel, DSystem, DAgent):
        c_._mod = name
    mod.DModel, mod.DSystem, mod.DAgent, mod.hook = DModel, DSystem, DAgent, hook
    if tag == 'lazy':
        del mod.DAgent
    sys.modules[name] = mod
    return mod


def build(desc):
    mm = 'replayers.dmod_' + desc['mod']
    data = {'model': {'name': 'DModel', 'module': mm, 'params': {'seed': 3}}, 'systems': [], 'agents': []}
    hk = desc.get('hookkind', 'hook')
    if desc['pre']:
        data['pre_model_decode'] = {'func': hk, 'module': mm, 'params': {'name': 'pre_model'}}
    if desc['post']:
        data['post_model_decode'] = {'func': 'hook', 'module': mm, 'params': {'name': 'post_model'}}
    for k, s in enumerate(desc['systems']):
        sm = 'replayers.dmod_' + s['mod']
        d = {'name': 'DSystem', 'module': sm, 'params': {'id': s['id'], 'priority': s['prio']}}
        for k_ in ('frequency', 'start', 'end'):
            if k_ in s:
                d['params'][k_] = s[k_]
        if s.get('preset'):        # a description that already carries the entry decode injects: the injected one wins
            d['params']['model'] = None
        if s['pre']:
            d['pre_system_init'] = {'func': hk, 'module': sm, 'params': {'name': f'pre_sys{k}'}}
        if s['post']:
            d['post_system_init'] = {'func': 'hook', 'module': sm, 'params': {'name': f'post_sys{k}'}}
        data['systems'].append(d)
    for k, g in enumerate(desc['groups']):
        gm = 'replayers.dmod_' + g['mod']
        d = {'name': 'DAgent', 'module': gm, 'number': g['n'], 'params': {'prefix': f'g{k}_'}}
        if g.get('preset'):
            d['params']['agent_index'] = 7
            d['params']['model'] = None
        if g['pre']:
            d['pre_agent_init'] = {'func': 'lazy_hook' if g['mod'] == 'lazy' else 'hook', 'module': gm,
                                   'params': {'name': f'pre_grp{k}'}}
        if g['post']:
            d['post_agent_init'] = {'func': hk, 'module': gm, 'params': {'name': f'post_grp{k}'}}
        data['agents'].append(d)
    return data


def expected(desc):
    ev = []
    t = desc['mod']
    if desc['pre']:
        ev.append(('hook', t, 'pre_model', False))
    ev.append(('model', t))
    for k, s in enumerate(desc['systems']):
        if s['pre']:
            ev.append(('hook', s['mod'], f'pre_sys{k}', True))
        ev.append(('system', s['mod'], s['id'], True))
        if s['post']:
            ev.append(('hook', s['mod'], f'post_sys{k}', True))
    for k, g in enumerate(desc['groups']):
        if g['pre']:
            ev.append(('hook', g['mod'], f'pre_grp{k}', True))
        for i in range(g['n']):
            ev.append(('agent', g['mod'], f'g{k}_', i, True))
        if g['post']:
            ev.append(('hook', g['mod'], f'post_grp{k}', True))
    if desc['post']:
        ev.append(('hook', t, 'post_model', False))
    return ev


def run_history(h, props=None):
    from ECAgent.Decode import Decoder
    _make_module('a')
    _make_module('b')
    _make_module('lazy')
    _make_module('pop')
    _make_module('swap')
    out = []

    class MemDecoder(Decoder):
        _verif_user = True

        def __init__(self, data):
            self.data = data

        def open_file(self, file_name):
            return self.data
    for n, desc in enumerate(h[1]):
        LOG.clear()
        w = f'description #{n} {desc}'
        try:
            if h[0] == 'decode_json':
                # through the real JSON decoder and a real file: what open_file hands to decode() is the file's content
                import json
                import os
                import tempfile
                from ECAgent.Decode import JsonDecoder
                fd, path = tempfile.mkstemp(prefix='verif-c18-', suffix='.json')
                try:
                    with os.fdopen(fd, 'w') as fh:
                        json.dump(build(desc), fh)
                    model = JsonDecoder().decode(path)
                finally:
                    os.unlink(path)
            else:
                model = MemDecoder(build(desc)).decode('mem')
        except Exception as ex:
            out.append(('C18', f'{w}: decode raised {type(ex).__name__}: {ex}'))
            continue
        got = []
        for e in LOG:
            if e[0] == 'model':
                got.append(('model', e[1]))
            elif e[0] == 'hook':
                got.append(('hook', e[1], e[2], e[3] is model))
            elif e[0] == 'system':
                got.append(('system', e[1], e[2], e[3] is model))
            else:
                got.append(('agent', e[1], e[2], e[3], e[4] is model))
        exp = expected(desc)
        if got != exp:
            k = next((i for i, (a, b) in enumerate(zip(got, exp)) if a != b), min(len(got), len(exp)))
            out.append(('C18', f'{w}: lifecycle differs at event {k}: got {got[k:k + 3]}, documented {exp[k:k + 3]}'))
        if getattr(model, 'tagmod', None) != desc['mod']:
            out.append(('C18', f'{w}: model built by module {getattr(model, "tagmod", None)}'))
        ids = [(s.id, s.priority, getattr(type(s), '_mod', None)) for s in model.systems.execution_queue]
        exp_ids = sorted([(s['id'], s['prio'], 'replayers.dmod_' + s['mod']) for s in desc['systems']],
                         key=lambda x: -x[1])
        if sorted(ids) != sorted(exp_ids):
            out.append(('C18', f'{w}: model contains systems {ids}, listed {exp_ids}'))
        import sys as _sys
        for s_ in desc['systems']:
            obj = model.systems.systems.get(s_['id'])
            if obj is None:
                continue
            sched = (obj.frequency, obj.start, obj.end)
            want = (s_.get('frequency', 1), s_.get('start', 0), s_.get('end', _sys.maxsize))
            if sched != want:
                out.append(('C18', f'{w}: system {s_["id"]} decoded with (frequency, start, end) = {sched}, declared {want}'))
        exp_agents = [f'g{k}_{i}' for k, g in enumerate(desc['groups']) for i in range(g['n'])]
        if list(model.environment.agents) != exp_agents:
            out.append(('C18', f'{w}: model contains agents {list(model.environment.agents)}, listed {exp_agents}'))
        amods = {getattr(type(a), '_mod', None) for a in model.environment.agents.values()}
        if any(g['n'] for g in desc['groups']) and amods - {'replayers.dmod_' + g['mod'] for g in desc['groups']}:
            out.append(('C18', f'{w}: agents built by modules {amods}'))
        if len(out) > 3:
            break
    return out


def _desc(rng):
    return dict(pre=rng.random() < 0.5, post=rng.random() < 0.5, mod=rng.choice('ab'),
                systems=[dict(dict(id=f's{k}', prio=rng.randint(-2, 2), pre=rng.random() < 0.4, post=rng.random() < 0.4,
                                   mod=rng.choice('ab')),
                              **rng.choice([{}, {}, {'end': rng.randint(0, 3)}, {'start': rng.randint(-1, 2)},
                                            {'frequency': rng.randint(1, 3), 'start': rng.randint(0, 2),
                                             'end': rng.randint(0, 4)}])) for k in range(rng.randint(0, 3))],
                groups=[dict(n=rng.choice([0, 0, 1, 2, 3]), pre=rng.random() < 0.5, post=rng.random() < 0.5,
                             mod=rng.choice('ab'), preset=rng.random() < 0.2) for _ in range(rng.randint(0, 3))])


def histories(seed, budget, prop='C18'):
    rng = random.Random(seed)
    full = dict(pre=True, post=True, mod='a',
                systems=[dict(id='s0', prio=1, pre=True, post=True, mod='a'), dict(id='s1', prio=0, pre=False, post=True, mod='a')],
                groups=[dict(n=2, pre=True, post=True, mod='a'), dict(n=0, pre=True, post=True, mod='a'),
                        dict(n=1, pre=False, post=False, mod='a')])
    yield ('decode', [full])
    yield ('decode', [dict(full, systems=[dict(id='one', prio=0, pre=False, post=False, mod='a', end=0),
                                          dict(id='win', prio=1, pre=False, post=False, mod='a', start=2, end=5, frequency=3),
                                          dict(id='neg', prio=1, pre=False, post=False, mod='b', start=-1, end=-1)])])
    yield ('decode', [dict(pre=False, post=False, mod='a', systems=[], groups=[])])
    yield ('decode', [dict(full, systems=[dict(id='s0', prio=1, pre=True, post=True, mod='a', preset=True)],
                           groups=[dict(n=3, pre=True, post=True, mod='a', preset=True),
                                   dict(n=2, pre=False, post=False, mod='b', preset=True)])])
    other = dict(full, mod='b', systems=[dict(s, mod='b') for s in full['systems']],
                 groups=[dict(g, mod='b') for g in full['groups']])
    yield ('decode', [full, other, full])
    yield ('decode_json', [full, other])
    yield ('decode', [dict(full, groups=[dict(n=2, pre=True, post=False, mod='lazy'), dict(n=1, pre=True, post=True, mod='a')])])
    for hk in ('hook_obj', 'hook_method', 'hook_partial'):
        yield ('decode', [dict(full, hookkind=hk)])
    yield ('decode_json', [dict(full, groups=[dict(n=0, pre=True, post=True, mod='a'), dict(n=2, pre=True, post=False, mod='a'),
                                              dict(n=0, pre=False, post=True, mod='b')])])
    yield ('decode', [other, full])
    # the same description text decoded again and again in one process, by user code that consumes what it is handed
    popper = dict(full, mod='pop', systems=[dict(id='s0', prio=1, pre=True, post=True, mod='pop', frequency=2, start=1, end=9),
                                            dict(id='s1', prio=0, pre=False, post=True, mod='pop', end=4)],
                  groups=[dict(n=2, pre=True, post=True, mod='pop'), dict(n=0, pre=True, post=True, mod='pop')])
    yield ('decode_json', [popper, popper, popper])
    # a group hook that installs a new environment: the agents join the environment the model has when they are added
    yield ('decode', [dict(full, groups=[dict(n=2, pre=True, post=True, mod='swap'), dict(n=1, pre=True, post=False, mod='swap')])])
    # priorities are numbers as written (1.5 sits between 1 and 2)
    yield ('decode_json', [dict(full, systems=[dict(id='lo', prio=1, pre=False, post=False, mod='a'),
                                               dict(id='mid', prio=1.5, pre=False, post=False, mod='a'),
                                               dict(id='hi', prio=2, pre=False, post=False, mod='b'),
                                               dict(id='neg', prio=-0.5, pre=False, post=False, mod='a'),
                                               dict(id='pos', prio=0.5, pre=True, post=False, mod='a')])])
    yield ('decode_json', [popper, dict(popper, pre=False), popper])
    for k in range(budget):
        yield ('decode_json' if k % 5 == 0 else 'decode', [_desc(rng) for _ in range(rng.randint(1, 3))])
