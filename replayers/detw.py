"""Determinism cases (C07): the same scenario with the same seed must give the same trajectory digest

  * after arbitrary perturbation of the global generators (random, numpy.random),
  * when another model is built and stepped in between,
  * in a fresh interpreter with a different PYTHONHASHSEED.

history: ('det', world_kind, seed, n_agents, steps, template_size)
"""
import hashlib
import json
import os
import random
import subprocess
import sys

sys.path.insert(0, '/verif')


def scenario(kind, seed, n_agents, steps, tsize, interleave=False):
    """Build a model, run it, return the trajectory (list of observations)."""
    from ECAgent.Core import Model, Agent, Component, System
    import ECAgent.Environments as E

    CT = [type(f'CT{k}', (Component,), {'__slots__': ()}) for k in range(3)]
    m = Model(seed=seed)
    if kind == 'grid':
        m.set_environment(E.GridWorld(m, 5, 4))
    elif kind == 'space':
        m.set_environment(E.SpaceWorld(m, 6.0, 5.0, 0.0))
    env = m.environment
    traj = []

    class Mover(System):
        def execute(self):
            tmpl = CT[:tsize]
            a = env.get_random_agent(*tmpl)
            order = [x.id for x in env.shuffle(*tmpl)]
            pick2 = env.get_random_agent(tag=0)
            traj.append((self.model.systems.timestep, a.id if a else None, order, pick2.id if pick2 else None,
                         round(self.model.random.random(), 9)))
            if kind != 'plain' and a is not None:
                env.move(a, self.model.random.randint(-2, 2), self.model.random.randint(-2, 2))
                p = a[E.PositionComponent]
                traj.append((a.id, p.x, p.y))
                if kind == 'grid':
                    # a model that works on the answers it was given in place (shuffle, pop): they are its own lists
                    for mode in ('moore', 'neumann'):
                        cells = env.get_neighbours(p, 1, True, tuple, mode)
                        self.model.random.shuffle(cells)
                        traj.append((mode, [list(c) for c in cells[:3]], len(cells)))
                        cells.pop()
                here = env.get_agents_at(p.x, p.y, 0, 1)
                self.model.random.shuffle(here)
                traj.append(('near', [x.id for x in here]))
                here.clear()
    m.systems.add_system(Mover('mover', m))
    for i in range(n_agents):
        a = Agent(f'agent{i}', m, tag=i % 2)
        for k in range(3):
            if (i >> k) & 1 or k < tsize and i % 3:
                a.add_component(CT[k](a, m))
        if kind == 'plain':
            env.add_agent(a)
        else:
            env.add_agent(a, i % 5, i % 4)
    other = Model(seed=seed + 1) if interleave else None
    if other is not None:
        other.environment.add_agent(Agent('x', other))
    for _ in range(steps):
        m.execute()
        if other is not None:
            other.environment.get_random_agent()
            other.environment.shuffle()
            other.random.random()
    return traj


class KwModel:
    """Model factory for batch determinism: the seed travels through **kwargs to the base Model (module level: picklable)."""
    def __new__(cls, n_agents=4, **kwargs):
        from ECAgent.Core import Model, Agent
        from ECAgent.Collectors import Collector

        class _M(Model):
            def __init__(self, n_agents=4, **kw):
                super().__init__(**kw)

        class Rec(Collector):
            def collect(self):
                env = self.model.environment
                pick = env.get_random_agent()
                self.records.append((pick.id if pick else None, [a.id for a in env.shuffle()],
                                     round(self.model.random.random(), 9)))
        m = _M(n_agents, **kwargs)
        for i in range(n_agents):
            m.environment.add_agent(Agent(f'agent{i}', m))
        m.systems.add_system(Rec('rec', m))
        return m


def batch_trajectories(seed, n_agents, steps, procs):
    import ECAgent.Batching as B
    direct = KwModel(n_agents, seed=seed)
    for _ in range(steps):
        direct.execute()
    want = list(direct.systems['rec'].records)
    got = B.batch_run(KwModel, {'n_agents': [n_agents], 'seed': [seed]}, collectors='rec', processes=procs,
                      max_timesteps=steps, repetitions=2)
    return want, got


def digest(traj):
    return hashlib.sha256(json.dumps(traj, sort_keys=True).encode()).hexdigest()


def run_history(h, props=None):
    import numpy as np
    if h[0] == 'nested':
        # model B stepped from inside a system of model A must follow the trajectory it follows alone
        _, seed, n_agents, steps = h
        from ECAgent.Core import Model, Agent, System

        def make_b():
            b = Model(seed=seed)
            for i in range(n_agents):
                b.environment.add_agent(Agent(f'agent{i}', b))
            trace = []

            class Draw(System):
                def execute(self):
                    env = self.model.environment
                    pick = env.get_random_agent()
                    trace.append((self.model.systems.timestep, pick.id if pick else None, [a.id for a in env.shuffle()]))
            b.systems.add_system(Draw('draw', b))
            return b, trace
        b1, t1 = make_b()
        for _ in range(steps):
            b1.execute()
        b2, t2 = make_b()
        a = Model(seed=99)

        class Driver(System):
            def execute(self):
                b2.execute()
        a.systems.add_system(Driver('driver', a))
        for _ in range(steps):
            a.execute()
        if t1 != t2 or b1.systems.timestep != b2.systems.timestep:
            return [('C07', f'seed {seed}: model stepped from inside another model\'s system recorded {len(t2)} steps '
                            f'(timestep {b2.systems.timestep}), alone {len(t1)} steps (timestep {b1.systems.timestep}); '
                            f'first difference at {next((k for k, (x, y) in enumerate(zip(t1, t2)) if x != y), min(len(t1), len(t2)))}')]
        return []
    if h[0] == 'batchdet':
        _, seed, n_agents, steps, procs = h
        try:
            want, got = batch_trajectories(seed, n_agents, steps, procs)
        except Exception as ex:
            return [('C07', f'batch determinism case {h}: {type(ex).__name__}: {ex}')]
        bad = [k for k, g in enumerate(got) if [tuple(x) if not isinstance(x, tuple) else x for x in g] != want
               and [list(map(_norm, x)) for x in g] != [list(map(_norm, x)) for x in want]]
        return [('C07', f'seed {seed} passed through batch_run (processes={procs}): repetition(s) {bad} differ from the model '
                        f'built directly with the same seed')] if bad else []
    _, kind, seed, n_agents, steps, tsize = h[:6]
    cross = len(h) > 6 and h[6]
    out = []
    d0 = digest(scenario(kind, seed, n_agents, steps, tsize))
    random.seed(12345)
    np.random.seed(99)
    [random.random() for _ in range(seed % 7 + 1)]
    d1 = digest(scenario(kind, seed, n_agents, steps, tsize))
    random.seed(777)
    d2 = digest(scenario(kind, seed, n_agents, steps, tsize, interleave=True))
    if not (d0 == d1 == d2):
        out.append(('C07', f'same seed {seed}, different trajectories under global reseeding / interleaving '
                           f'({kind}, {n_agents} agents, template {tsize}): {d0[:8]} {d1[:8]} {d2[:8]}'))
    if cross:
        env = dict(os.environ)
        env['PYTHONPATH'] = os.pathsep.join(p for p in sys.path if p)
        for hs in ('1', '4242'):
            env['PYTHONHASHSEED'] = hs
            p = subprocess.run([sys.executable, '-c',
                                'import sys; sys.path[:0]=%r; from replayers import detw; '
                                'print(detw.digest(detw.scenario(%r,%r,%r,%r,%r)))' %
                                ([x for x in sys.path if x], kind, seed, n_agents, steps, tsize)],
                               capture_output=True, text=True, env=env, timeout=120)
            dx = p.stdout.strip().splitlines()[-1] if p.stdout.strip() else 'ERR ' + p.stderr[-200:]
            if dx != d0:
                out.append(('C07', f'same seed {seed}, different trajectory in a fresh interpreter with PYTHONHASHSEED={hs}: '
                                   f'{d0[:8]} vs {dx[:16]}'))
    return out


def _norm(x):
    return list(x) if isinstance(x, (list, tuple)) else x


def histories(seed, budget, prop='C07'):
    rng = random.Random(seed)
    for s_ in (0, 7):
        yield ('batchdet', s_, 4, 3, 1)
    yield ('batchdet', 11, 5, 2, 2)
    for s_ in (7, 0):
        yield ('nested', s_, 4, 5)
    for kind in ('plain', 'grid', 'space'):
        for s in (0, 1, 30):
            for tsize in (0, 1, 2):
                yield ('det', kind, s, 6, 4, tsize, tsize == 2 and s == 0)
    for _ in range(min(budget, 150)):
        yield ('det', rng.choice(['plain', 'grid', 'space']), rng.randint(0, 50), rng.randint(0, 9), rng.randint(1, 5),
               rng.randint(0, 3), rng.random() < 0.03)
