"""Scheduler histories (C01, C02, C05, C06): real API driven by JSON-able op lists, with an independent
property-level oracle and the run-time contract monitors.  Runs under /venv/bin/python.

ops:  ('add', id, prio, freq, start, end|None, script) ('remove', id) ('step', n) ('exec', n) ('step_err',)
      ('complete',) ('bad_exec', value)
script actions performed by a system when it runs: ('complete'[, t]) ('remove', id[, t]) ('add', id, prio[, t])
The oracle keeps its own registry (parameters as given in the ops - never read back from the objects).
"""
import itertools
import os
import random
import sys

sys.path.insert(0, '/verif')
from pyvc import specs as S      # noqa: E402
from replayers import monitor    # noqa: E402

BIG = sys.maxsize


LAST_DYNAMIC = False      # the last history edited the system set from inside execute(): static-view contracts say nothing


class Rec:
    def __init__(self, obj, sid, prio, freq, start, end, stamp, script):
        self.obj, self.id, self.prio, self.freq, self.start, self.end = obj, sid, prio, freq, start, end
        self.stamp, self.script = stamp, script

    def due(self, t):
        return self.start <= t <= self.end and (t - self.start) % self.freq == 0


def make_world(flavour=()):
    """flavour: user-side variations the library must not care about -
       'truthy_model' (a Model subclass whose __bool__ always answers True), 'falsy_sys' (systems with __len__ == 0, e.g.
       a collector sized by its records), 'eq_sys' (systems comparing equal by identifier), 'np_prio' (priorities taken
       from a numpy array), 'np_flag' (flags given as numpy bools / 1)."""
    from ECAgent.Core import Model, System

    class Scripted(System):
        _verif_user = True

        def __init__(self, id, model, priority=0, frequency=1, start=0, end=BIG, script=None, world=None):
            super().__init__(id, model, priority, frequency, start, end)
            self.script = script or []
            self.world = world

        def execute(self):
            w = self.world
            sm = self.model.systems
            mons = S.REG.contracts['Core.System.execute'].monitor.items()
            if not monitor.CURRENT.get('Core.SystemManager.execute_systems'):
                mons = []          # the scheduler's precondition did not hold: its call-site monitors say nothing
            caller = S.Old(self=sm)
            for tag, preds in mons:
                if w.dynamic:
                    continue
                for p in preds:
                    try:
                        if not p(self, caller):
                            monitor.FAILURES.append(dict(function='Core.SystemManager.execute_systems', kind='assert',
                                                         clause='assert:' + p.__name__, args={'sys': self.id}))
                    except Exception:
                        pass
            S.GHOST.runs[self] += 1
            S.GHOST.last = self
            w.log.append((sm.timestep, self.id, id(self)))
            t = sm.timestep
            for act in self.script:
                if act[0] == 'complete' and (len(act) == 1 or act[1] == t):
                    self.model.complete()
                    w.completed_at = len(w.log)
                elif act[0] == 'remove' and (len(act) == 2 or act[2] == t):
                    if act[1] in sm.systems:
                        w.removed[id(sm.systems[act[1]])] = len(w.log)
                        w.reg = [r for r in w.reg if r.id != act[1]]
                        sm.remove_system(act[1])
                elif act[0] == 'replace' and (len(act) == 3 or act[3] == t):
                    # remove a registered system and register a *new object* under the same id
                    sid, prio = act[1], act[2]
                    if sid in sm.systems and sm.systems[sid] is not self:
                        w.removed[id(sm.systems[sid])] = len(w.log)
                        w.reg = [r for r in w.reg if r.id != sid]
                        sm.remove_system(sid)
                        s = Scripted(sid, self.model, prio, world=w)
                        sm.add_system(s)
                        w.added.add(id(s))
                        w.reg.append(Rec(s, sid, prio, 1, 0, BIG, w.stamp, []))
                        w.stamp += 1
                elif act[0] == 'retime' and act[4] == t:
                    # a system re-schedules a LATER system of this timestep: the window it has when its turn comes counts
                    _, sid, field, value, _t = act
                    if sid in sm.systems:
                        setattr(sm.systems[sid], field, value)
                        for r in w.reg:
                            if r.id == sid:
                                setattr(r, field if field != 'frequency' else 'freq', value)
                elif act[0] == 'add' and (len(act) == 3 or act[3] == t):
                    sid, prio = act[1], act[2]
                    if sid not in sm.systems:
                        s = Scripted(sid, self.model, prio, world=w)
                        sm.add_system(s)
                        w.added.add(id(s))
                        w.reg.append(Rec(s, sid, prio, 1, 0, BIG, w.stamp, []))
                        w.stamp += 1

    class World:
        pass
    w = World()
    w.flavour = tuple(flavour)
    if 'truthy_model' in flavour:
        class TruthyModel(Model):
            _verif_user = True

            def __bool__(self):
                return True
        w.model = TruthyModel(seed=1)
    else:
        w.model = Model(seed=1)
    if 'falsy_sys' in flavour:
        class Scripted(Scripted):           # noqa: F811
            def __len__(self):
                return 0
    if 'eq_sys' in flavour:
        class Scripted(Scripted):           # noqa: F811
            def __eq__(self, other):
                return isinstance(other, System) and other.id == self.id

            def __hash__(self):
                return hash(self.id)
    w.Scripted = Scripted
    w.log = []
    w.removed = {}
    w.added = set()
    w.reg = []
    w.stamp = 0
    w.dynamic = False
    w.completed_at = None
    return w


def expected_order(w):
    return sorted(w.reg, key=lambda r: (-r.prio, r.stamp))


def run_history(ops, props=('C01', 'C02', 'C05', 'C06')):
    """Apply ops to a fresh model.  Returns list of (property, message) oracle violations."""
    from ECAgent.Core import ModelCompleteError, SystemNotFoundError
    flavour = tuple(op[1] for op in ops if op[0] == 'flavour')
    ops = [op for op in ops if op[0] != 'flavour']
    w = make_world(flavour)
    m = w.model
    sm = m.systems
    out = []

    def _truth(model):
        return False if 'truthy_model' in flavour else bool(model)

    def _prio(p):
        if 'np_prio' in flavour:
            import numpy as np
            return np.uint8(p) if p >= 0 else np.int8(p)
        return p
    w.dynamic = any(op[0] == 'add' and any(a[0] in ('add', 'remove', 'replace') for a in op[6]) for op in ops)
    global LAST_DYNAMIC
    LAST_DYNAMIC = w.dynamic
    dyn = 'C05' if w.dynamic else None
    for op in ops:
        kind = op[0]
        if kind == 'add':
            _, sid, prio, freq, start, end, script = op
            end = BIG if end is None else end
            s = w.Scripted(sid, m, _prio(prio), freq, start, end, script=script, world=w)
            taken = any(r.id == sid for r in w.reg)
            before = monitor.fingerprint((sm.systems, sm.execution_queue))
            try:
                sm.add_system(s)
                if taken:
                    out.append(('C01', f'registration of {sid} accepted although the identifier is in use'))
                w.reg.append(Rec(s, sid, prio, freq, start, end, w.stamp, script))
                w.stamp += 1
            except KeyError:
                if not taken:
                    out.append(('C01', f'fresh registration of {sid} rejected'))
                if monitor.fingerprint((sm.systems, sm.execution_queue)) != before:
                    out.append(('C01', f'rejected registration of {sid} changed the scheduler'))
        elif kind == 'addcoll':
            # collectors are systems too: the package's own System subclasses must honour the declared window and the
            # documented default priority -1 (they run after the default-priority systems of the timestep)
            _, ckind, sid, prio, freq, start, end = op
            from ECAgent.Collectors import AgentCollector, FileCollector, Collector
            world = w
            kw = dict(frequency=freq, start=start, end=BIG if end is None else end)
            if prio is not None:
                kw['priority'] = prio

            def _mk(base, *a, **k):
                class Logged(base):
                    _verif_user = True

                    def collect(self):
                        S.GHOST.runs[self] += 1
                        S.GHOST.last = self
                        world.log.append((self.model.systems.timestep, self.id, id(self)))
                return Logged(*a, **k)
            if any(r.id == sid for r in w.reg):
                continue
            if ckind == 'agent':
                obj = _mk(AgentCollector, m, lambda a: 1, None, True, id=sid, **kw)
            elif ckind == 'file':
                obj = _mk(FileCollector, sid, m, os.devnull, **kw)
            else:
                obj = _mk(Collector, sid, m, **kw)
            sm.add_system(obj)
            w.reg.append(Rec(obj, sid, -1 if prio is None else prio, freq, start, BIG if end is None else end, w.stamp, []))
            w.stamp += 1
        elif kind == 'remove':
            sid = op[1]
            present = any(r.id == sid for r in w.reg)
            before = monitor.fingerprint((sm.systems, sm.execution_queue))
            try:
                sm.remove_system(sid)
                if not present:
                    out.append(('C01', f'removal of unknown {sid} accepted'))
                w.reg = [r for r in w.reg if r.id != sid]
            except SystemNotFoundError:
                if present:
                    out.append(('C01', f'removal of registered {sid} rejected'))
                if monitor.fingerprint((sm.systems, sm.execution_queue)) != before:
                    out.append(('C01', f'rejected removal of {sid} changed the scheduler'))
        elif kind == 'addforeign':
            # a system object built for another, still running model is registered here: whether it runs is decided by
            # THIS model's state (add_system does not check ownership)
            _, sid, prio = op
            if not hasattr(w, 'other'):
                from ECAgent.Core import Model as _Model
                w.other = _Model(seed=2)
            if any(r.id == sid for r in w.reg):
                continue
            s = w.Scripted(sid, w.other, prio, world=w)
            s.model_for_log = m
            sm.add_system(s)
            w.reg.append(Rec(s, sid, prio, 1, 0, BIG, w.stamp, []))
            w.stamp += 1
        elif kind == 'readd':
            # the same system object is removed and registered again: it counts as newly registered
            sid = op[1]
            rec = next((r for r in w.reg if r.id == sid), None)
            if rec is not None:
                obj = sm.systems[sid]
                sm.remove_system(sid)
                sm.add_system(obj)
                w.reg = [r for r in w.reg if r.id != sid]
                w.reg.append(Rec(obj, sid, rec.prio, rec.freq, rec.start, rec.end, w.stamp, rec.script))
                w.stamp += 1
        elif kind == 'cleanup':
            # System.clean_up(): the system removes itself - must behave like remove_system(id)
            sid = op[1]
            if sid in sm.systems:
                sm.systems[sid].clean_up()
                w.reg = [r for r in w.reg if r.id != sid]
                if sid in sm.systems or any(x.id == sid for x in sm.execution_queue):
                    out.append(('C01', f'{sid}.clean_up() left the system registered / queued'))
        elif kind == 'complete':
            m.complete()
        elif kind == 'bad_exec':
            t0 = sm.timestep
            try:
                m.execute(op[1])
                out.append(('C02', f'execute({op[1]!r}) accepted'))
            except (TypeError, ValueError):
                pass
            if sm.timestep != t0:
                out.append(('C02', f'rejected execute({op[1]!r}) advanced time'))
        elif kind in ('step', 'step_err', 'exec'):
            n = op[1] if len(op) > 1 else 1
            if kind == 'exec':
                # n steps in one call: oracle = n single steps of bookkeeping
                t0 = sm.timestep
                was_running = m.is_running()
                w.log.clear()
                w.removed.clear()
                w.added.clear()
                w.completed_at = None
                start_reg = expected_order(w)
                m.execute(n)
                if not was_running:
                    if w.log:
                        out.append(('C06', f'systems ran on a completed model: {[x[1] for x in w.log]}'))
                    if sm.timestep != t0:
                        out.append(('C06', f'execute({n}) advanced a completed model from {t0} to {sm.timestep}'))
                elif m.is_running():
                    if sm.timestep != t0 + n:
                        out.append(('C02', f'execute({n}): timestep {t0} -> {sm.timestep}'))
                    if not w.dynamic:
                        exp = [(t, r.id) for t in range(t0, t0 + n) for r in start_reg if r.due(t)]
                        got = [(x[0], x[1]) for x in w.log]
                        if exp != got:
                            out.append(('C02', f'execute({n}) ran {got}, n single steps would run {exp}'))
                continue
            for _ in range(n if kind == 'step' else 1):
                t0 = sm.timestep
                was_running = m.is_running()
                start_reg = expected_order(w)
                w.log.clear()
                w.removed.clear()
                w.added.clear()
                w.completed_at = None
                state0 = monitor.fingerprint((sm.systems, sm.execution_queue, sm.timestep))
                try:
                    if kind == 'step':
                        m.execute()
                    else:
                        import logging as _lg
                        quiet = len(op) > 1 and op[1] == 'quiet'
                        if quiet:       # a legal logging setup: nobody listens at INFO level
                            _lg.disable(_lg.INFO)
                        try:
                            flag = True
                            if 'np_flag' in flavour:
                                import numpy as np
                                flag = np.True_ if t0 % 2 == 0 else 1
                            sm.execute_systems(flag)
                        finally:
                            if quiet:
                                _lg.disable(_lg.NOTSET)
                        if not was_running:
                            out.append(('C06', 'execute_systems(True) on a complete model did not raise'))
                except ModelCompleteError:
                    if was_running:
                        out.append(('C06', 'ModelCompleteError on a running model'))
                ran = [x[2] for x in w.log]
                ran_ids = [x[1] for x in w.log]
                if not was_running:
                    if ran:
                        out.append(('C06', f'systems {ran_ids} ran on a completed model'))
                    if sm.timestep != t0:
                        out.append(('C06', 'timestep advanced on a completed model'))
                    if monitor.fingerprint((sm.systems, sm.execution_queue, sm.timestep)) != state0:
                        out.append(('C06', 'scheduler state changed on a completed model'))
                    if m.is_running() or _truth(m):
                        out.append(('C06', 'completed model reports running'))
                    continue
                if sm.timestep != t0 + 1:
                    out.append(('C02', f'timestep {t0} -> {sm.timestep} after one step'))
                if m.timestep != sm.timestep:
                    out.append(('C02', 'model.timestep != scheduler timestep'))
                if len(set(ran)) != len(ran):
                    out.append((dyn or 'C02', f'a system ran twice in one step: {ran_ids}'))
                    if dyn:     # "exactly once" is C02's clause as well, whoever edits the system set
                        out.append(('C02', f'a system ran twice in one step: {ran_ids}'))
                pos = {id(r.obj): k for k, r in enumerate(start_reg)}
                seq = [pos[r] for r in ran if r in pos]
                if seq != sorted(seq):
                    out.append((dyn or 'C01', f'run order {ran_ids} violates priority/registration order'))
                    if dyn:
                        out.append(('C01', f'run order {ran_ids} violates priority/registration order'))
                if w.completed_at is not None and len(w.log) > w.completed_at:
                    out.append(('C06', f'systems ran after completion within the step: {ran_ids[w.completed_at:]}'))
                for r in start_reg:
                    ident = id(r.obj)
                    did = ident in ran
                    if did and not r.due(t0):
                        out.append(('C02', f'{r.id} ran at t={t0} outside its window'))
                    if ident in w.removed and did and ran.index(ident) >= w.removed[ident]:
                        out.append(('C05', f'{r.id} ran after it had been removed'))
                    stayed = ident not in w.removed
                    if r.due(t0) and stayed and not did and m.is_running():
                        out.append((dyn or 'C02', f'{r.id} due at t={t0} did not run'))
                        if dyn:
                            out.append(('C02', f'{r.id} due at t={t0} and registered throughout did not run'))
                if not m.is_running() and (m.is_running() or _truth(m)):
                    out.append(('C06', 'completed model reports running'))
    return out


# ------------------------------------------------------------------------------------------------ generators
def small_histories():
    """Exhaustive small scope: up to 3 systems, priorities in {-1,0,1}, a few windows; then steps."""
    prios = [-1, 0, 1]
    for n in (1, 2, 3):
        for ps in itertools.product(prios, repeat=n):
            ops = [('add', f's{k}', p, 1, 0, None, []) for k, p in enumerate(ps)]
            yield ops + [('step', 2)]
            if n >= 2:
                yield ops + [('remove', 's0'), ('add', 's0', ps[0], 1, 0, None, []), ('step', 1)]
                yield ops + [('add', 's1', 5, 1, 0, None, []), ('remove', 'zz'), ('step', 1)]
                yield ops + [('remove', f's{n - 1}'), ('step', 1)]
    # changes of the system set *between* timesteps, after the scheduler already ran (stale snapshots / caches)
    for ps in itertools.product([0, 1], repeat=3):
        base = [('add', f's{k}', ps[k], 1, 0, None, []) for k in range(3)]
        yield base + [('step', 1), ('remove', 's0'), ('add', 's0', ps[0], 1, 0, None, []), ('step', 2)]
        yield base + [('step', 1), ('remove', 's1'), ('add', 'n', ps[1], 1, 0, None, []), ('step', 2)]
        yield base + [('step', 1), ('cleanup', 's0'), ('add', 's0', ps[0], 1, 0, None, []), ('step', 2)]
        yield base + [('step', 1), ('readd', 's0'), ('step', 2), ('readd', 's1'), ('step', 1)]
        yield base + [('cleanup', 's1'), ('step', 1), ('add', 's1', ps[1], 1, 0, None, []), ('add', 'lo', -1, 1, 0, None, []),
                      ('step', 2)]
    big = sys.maxsize
    for ps in ((big, big - 1, 0), (-big, -big + 1, 0), (2 ** 53, 2 ** 53 + 1, 2 ** 53 + 2)):
        for perm in itertools.permutations(range(3)):
            yield [('add', f's{k}', ps[k], 1, 0, None, []) for k in perm] + [('step', 2)]
    for pos in range(3):
        ops = [('add', f's{k}', 2 - k, 1, 0, None, [('complete', 1)] if k == pos else []) for k in range(3)]
        yield ops[:pos + 1] + [('addforeign', 'guest', 2 - pos, )] + ops[pos + 1:] + [('step', 3), ('step_err',)]
    for ck in ('agent', 'file', 'plain'):
        # a collector that is cleaned up (by itself or from outside) leaves the scheduler like any other system
        yield [('add', 'x', 0, 1, 0, None, []), ('addcoll', ck, 'col', None, 1, 0, None), ('step', 2), ('cleanup', 'col'),
               ('step', 2), ('cleanup', 'x'), ('step', 1)]
    for ck in ('agent', 'file', 'plain'):
        for (f, st, en) in ((1, 0, 2), (2, 1, 5), (1, 3, 2), (3, 0, None), (1, 2, 2)):
            yield [('add', 'x', 0, 1, 0, None, []), ('addcoll', ck, 'col', None, f, st, en), ('add', 'y', -1, 1, 0, None, []),
                   ('add', 'z', -2, 1, 0, None, []), ('step', 7)]
        yield [('addcoll', ck, 'col', 3, 1, 0, 1), ('add', 'x', 3, 1, 0, None, []), ('exec', 4)]
    for f, st, en in itertools.product([1, 2, 3], [-2, 0, 1, 3], [None, 0, 2, 4]):
        yield [('add', 'a', 0, f, st, en, []), ('add', 'b', 0, 1, 0, None, []), ('step', 6)]
        yield [('add', 'b', 0, 1, 0, None, []), ('step', 4), ('add', 'a', 0, f, st, en, []), ('step', 7)]
        yield [('add', 'b', 0, 1, 0, None, []), ('exec', 2), ('add', 'a', 1, f, st, en, []), ('exec', 6)]
    for ps in itertools.product([0, 1], repeat=3):
        for pos in range(3):
            ops = [('add', f's{k}', ps[k], 1, 0, None, [('complete', 1)] if k == pos else []) for k in range(3)]
            yield ops + [('step', 3), ('step_err',), ('exec', 2), ('add', 'late', 9, 1, 0, None, []), ('step', 1),
                         ('remove', 's0'), ('remove', 's1'), ('remove', 's2'), ('remove', 'late'), ('exec', 2), ('step', 1)]
    yield [('add', 'a', 0, 1, 0, None, []), ('complete',), ('step', 1), ('step_err',), ('exec', 3)]
    yield [('complete',), ('exec', 3), ('step', 1), ('step_err',)]
    yield [('add', 'a', 0, 1, 0, None, []), ('step_err', 'quiet'), ('complete',), ('step_err', 'quiet'), ('step', 1),
           ('step_err',)]
    yield [('exec', 2), ('complete',), ('exec', 1), ('step', 2)]
    yield [('add', 'a', 0, 1, 0, None, []), ('bad_exec', 0), ('bad_exec', -1), ('bad_exec', 2.0), ('bad_exec', '3'),
           ('bad_exec', None), ('exec', 3), ('step', 1)]


def dynamic_histories():
    """C05: systems editing the system set mid-step."""
    for pos in range(3):
        for target in range(3):
            ops = [('add', f's{k}', 0, 1, 0, None, [('remove', f's{target}', 1)] if k == pos else []) for k in range(3)]
            yield ops + [('step', 3)]
        for prio in (-1, 0, 5):
            ops = [('add', f's{k}', 0, 1, 0, None, [('add', 'new', prio, 1)] if k == pos else []) for k in range(3)]
            yield ops + [('step', 3)]
    for pos in range(3):
        for target in range(3):
            for prio in (0, 1):
                ops = [('add', f's{k}', 0, 1, 0, None, [('replace', f's{target}', prio, 1)] if k == pos else [])
                       for k in range(3)]
                yield ops + [('step', 3)]
    # two edits in one execute(): the actor removes itself AND changes the queue in front of it
    for pos in (1, 2, 3):
        for second in (('remove', 's0', 1), ('add', 'hi', 7, 1), ('add', 'same', 0, 1), ('replace', 's0', 3, 1)):
            ops = [('add', f's{k}', 0, 1, 0, None, [('remove', f's{pos}', 1), second] if k == pos else []) for k in range(5)]
            yield ops + [('step', 3)]
            ops = [('add', f's{k}', 0, 1, 0, None, [second, ('remove', f's{pos}', 1)] if k == pos else []) for k in range(5)]
            yield ops + [('step', 3)]
    # a registration and the removal of a LATER system in the same timestep, either order, by one actor or by two:
    # the count of systems is back to what it was and the registry may have been rebuilt in between - the removed
    # system must still not run on its turn
    for prio in (-1, 0, 5):
        for target in (2, 3):
            for first_add in (True, False):
                edits = [('add', 'n', prio, 1), ('remove', f's{target}', 1)]
                if not first_add:
                    edits.reverse()
                ops = [('add', f's{k}', 0, 1, 0, None, edits if k == 0 else []) for k in range(5)]
                yield ops + [('step', 3)]
                ops = [('add', f's{k}', 0, 1, 0, None, [edits[0]] if k == 0 else ([edits[1]] if k == 1 else []))
                       for k in range(5)]
                yield ops + [('step', 3)]
    # a system re-schedules a later system of the same timestep (start / end / frequency): the later one runs iff it is
    # due by the window it has when its turn comes
    for field, value, t in (('end', 2, 3), ('start', 6, 3), ('frequency', 4, 2), ('end', 0, 1), ('start', 0, 0)):
        ops = [('add', 's0', 1, 1, 0, None, [('retime', 's2', field, value, t)]), ('add', 's1', 0, 1, 0, None, []),
               ('add', 's2', 0, 1, 0, None if field != 'start' or value else 9, [])]
        yield ops + [('step', 8)]
    # equal priorities with a mid-step removal of a system that is not the first of its priority class
    for target in (1, 2, 3):
        ops = [('add', f's{k}', (1 if k == 0 else 0), 1, 0, None, [('remove', f's{target}', 1)] if k == 0 else [])
               for k in range(5)]
        yield ops + [('step', 3)]
    for pa, pb, pc in itertools.product([0, 1], repeat=3):
        yield [('add', 'a', pa, 1, 0, None, [('remove', 'a', 0)]), ('add', 'b', pb, 1, 0, None, []),
               ('add', 'c', pc, 1, 0, None, [('add', 'n', 2, 0)]), ('step', 2)]


def random_history(rng, dynamic=False):
    ops = []
    ids = [f's{k}' for k in range(5)]
    for _ in range(rng.randint(3, 12)):
        r = rng.random()
        if r < 0.45:
            script = []
            if rng.random() < 0.12:
                script.append(('complete', rng.randint(0, 6)))
            for _rep in range(2 if dynamic and rng.random() < 0.3 else 1):
              if dynamic and rng.random() < 0.4:
                rr = rng.random()
                if rr < 0.25:
                    script.append(('replace', rng.choice(ids), rng.randint(-1, 2), rng.randint(0, 4)))
                elif rr < 0.5:
                    script.append(('remove', rng.choice(ids), rng.randint(0, 4)))
                else:
                    script.append(('add', 'n%d' % rng.randint(0, 2), rng.randint(-2, 3), rng.randint(0, 4)))
            ops.append(('add', rng.choice(ids), rng.randint(-1, 1), rng.randint(1, 4), rng.randint(-3, 5),
                        rng.choice([None, None, rng.randint(-1, 9)]), script))
        elif r < 0.6:
            ops.append((rng.choice(['remove', 'remove', 'cleanup', 'readd']), rng.choice(ids)))
        elif r < 0.85:
            ops.append(('step', rng.randint(1, 4)))
        elif r < 0.95:
            ops.append(('exec', rng.randint(1, 4)))
        elif r < 0.97:
            ops.append(('complete',))
        else:
            ops.append(rng.choice([('step_err',), ('step_err', 'quiet')]))
    return ops


def flavoured_histories(dynamic):
    """user-side variations (see make_world): the same orders, windows and removals must hold"""
    base = [('add', 'c0', -1, 1, 0, None, []), ('add', 's0', 0, 1, 0, None, []), ('add', 's1', 2, 2, 1, 7, []),
            ('add', 's2', 1, 3, 1, None, []), ('add', 's3', 0, 1, 0, 3, []), ('step', 3), ('readd', 's0'), ('step', 2),
            ('remove', 's1'), ('add', 's1', 3, 1, 0, None, []), ('step', 2), ('complete',), ('step_err',), ('step_err',),
            ('step', 1), ('exec', 2)]
    for fl in ('truthy_model', 'falsy_sys', 'eq_sys', 'np_prio', 'np_flag'):
        yield [('flavour', fl)] + base
    if dynamic:
        for fl in ('falsy_sys', 'eq_sys', 'truthy_model'):
            for pos in range(3):
                for target in range(3):
                    yield [('flavour', fl)] + [('add', f's{k}', 0, 1, 0, None, [('replace', f's{target}', 1, 1)] if k == pos else [])
                                               for k in range(3)] + [('step', 3)]
                    yield [('flavour', fl)] + [('add', f's{k}', 0, 1, 0, None, [('remove', f's{target}', 1)] if k == pos else [])
                                               for k in range(3)] + [('step', 3)]
            yield [('flavour', fl), ('add', 'a', 1, 1, 0, None, [('complete', 2)]), ('add', 'b', 0, 1, 0, None, []),
                   ('add', 'c', 0, 2, 0, None, []), ('step', 5), ('step_err',)]


def histories(seed, budget, dynamic=False):
    yield from flavoured_histories(dynamic)
    if dynamic == 'both':
        yield from small_histories()
        yield from dynamic_histories()
    elif dynamic:
        yield from dynamic_histories()
    else:
        yield from small_histories()
    rng = random.Random(seed)
    for k in range(budget):
        yield random_history(rng, (k % 3 == 0) if dynamic == 'both' else dynamic)
