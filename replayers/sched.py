"""Scheduler histories (C01, C02, C05, C06): real API driven by JSON-able op lists, with an independent
property-level oracle and the run-time contract monitors.  Runs under /venv/bin/python."""
import itertools
import random
import sys

sys.path.insert(0, '/verif')
from pyvc import specs as S      # noqa: E402
from replayers import monitor    # noqa: E402

BIG = sys.maxsize


def make_world():
    from ECAgent.Core import Model, System

    class Scripted(System):
        _verif_user = True

        def __init__(self, id, model, priority=0, frequency=1, start=0, end=BIG, script=None, world=None):
            super().__init__(id, model, priority, frequency, start, end)
            self.script = script or []
            self.world = world

        def execute(self):
            w = self.world
            sm = self.model.systems
            # native evaluation of the abstract contract's call-site monitors (same predicate text)
            import contracts.core as cc
            caller = S.Old(self=sm)
            mons = S.REG.contracts['Core.System.execute'].monitor.items()
            if not monitor.CURRENT.get('Core.SystemManager.execute_systems'):
                mons = []          # the scheduler's precondition did not hold: its call-site monitors say nothing
            for tag, preds in mons:
                if tag == 'C01' and w.dynamic:
                    continue
                for p in preds:
                    try:
                        if not p(self, caller):
                            monitor.FAILURES.append(dict(function='Core.SystemManager.execute_systems', kind='assert',
                                                         clause='assert:' + p.__name__, args={'sys': self.id}))
                    except Exception:
                        pass
            S.GHOST.runs[self] += 1
            S.GHOST.last = self
            w.log.append((sm.timestep, self.id, id(self)))
            for act in self.script:
                if act[0] == 'complete' and (len(act) == 1 or act[1] == sm.timestep):
                    self.model.complete()
                elif act[0] == 'remove' and (len(act) == 2 or act[2] == sm.timestep):
                    if act[1] in sm.systems:
                        w.removed.add(id(sm.systems[act[1]]))
                        sm.remove_system(act[1])
                elif act[0] == 'add' and (len(act) == 3 or act[3] == sm.timestep):
                    sid, prio = act[1], act[2]
                    if sid not in sm.systems:
                        s = Scripted(sid, self.model, prio, world=w)
                        sm.add_system(s)
                        w.added.add(id(s))

    class World:
        pass
    w = World()
    w.model = Model(seed=1)
    w.Scripted = Scripted
    w.log = []
    w.removed = set()
    w.added = set()
    w.reg = []          # oracle: registration history [(stamp, sys)]
    w.stamp = 0
    w.dynamic = False
    return w


def expected_order(w):
    live = [(s, st) for st, s in w.reg]
    live.sort(key=lambda p: (-p[0].priority, p[1]))
    return [s for s, _ in live]


def due(s, t):
    return s.start <= t <= s.end and (t - s.start) % s.frequency == 0


def run_history(ops, props=('C01', 'C02', 'C05', 'C06')):
    """Apply ops to a fresh model.  Returns list of (property, message) oracle violations."""
    from ECAgent.Core import ModelCompleteError, SystemNotFoundError
    w = make_world()
    m = w.model
    sm = m.systems
    out = []
    w.dynamic = any(op[0] == 'add' and op[6] for op in ops if op[0] == 'add' and len(op) > 6 and
                    any(a[0] in ('add', 'remove') for a in op[6]))
    for op in ops:
        kind = op[0]
        if kind == 'add':
            _, sid, prio, freq, start, end, script = op
            s = w.Scripted(sid, m, prio, freq, start, end if end is not None else BIG, script=script, world=w)
            before = list(sm.execution_queue), dict(sm.systems)
            try:
                sm.add_system(s)
                if sid in before[1]:
                    out.append(('C01', f'duplicate registration of {sid} accepted'))
                w.reg.append((w.stamp, s))
                w.stamp += 1
            except KeyError:
                if sid not in before[1]:
                    out.append(('C01', f'fresh registration of {sid} rejected'))
                if (list(sm.execution_queue), dict(sm.systems)) != before:
                    out.append(('C01', f'rejected registration of {sid} changed the scheduler'))
        elif kind == 'remove':
            sid = op[1]
            before = list(sm.execution_queue), dict(sm.systems)
            try:
                sm.remove_system(sid)
                if sid not in before[1]:
                    out.append(('C01', f'removal of unknown {sid} accepted'))
                w.reg = [(st, s) for st, s in w.reg if s.id != sid]
            except SystemNotFoundError:
                if sid in before[1]:
                    out.append(('C01', f'removal of registered {sid} rejected'))
                if (list(sm.execution_queue), dict(sm.systems)) != before:
                    out.append(('C01', f'rejected removal of {sid} changed the scheduler'))
        elif kind == 'complete':
            m.complete()
        elif kind in ('step', 'step_err', 'exec'):
            n = op[1] if len(op) > 1 else 1
            for _ in range(n if kind == 'step' else 1):
                t0 = sm.timestep
                was_running = m.is_running()
                start_reg = expected_order(w)
                w.log.clear()
                w.removed.clear()
                w.added.clear()
                S.GHOST.reset()
                state0 = monitor.fingerprint((sm.systems, sm.execution_queue, sm.timestep))
                try:
                    if kind == 'step':
                        m.execute()
                    elif kind == 'exec':
                        m.execute(n)
                    else:
                        sm.execute_systems(True)
                        if not was_running:
                            out.append(('C06', 'execute_systems(True) on a complete model did not raise'))
                except ModelCompleteError:
                    if was_running:
                        out.append(('C06', 'ModelCompleteError on a running model'))
                ran = [x[2] for x in w.log]
                ran_ids = [x[1] for x in w.log]
                if not was_running:
                    if ran:
                        out.append(('C06', f'systems {ran_ids} ran on a completed model'))
                    if sm.timestep != t0:
                        out.append(('C06', 'timestep advanced on a completed model'))
                    if monitor.fingerprint((sm.systems, sm.execution_queue, sm.timestep)) != state0:
                        out.append(('C06', 'scheduler state changed on a completed model'))
                    if m.is_running() or bool(m):
                        out.append(('C06', 'completed model reports running'))
                    continue
                if kind == 'exec':
                    continue
                if sm.timestep != t0 + 1:
                    out.append(('C02', f'timestep {t0} -> {sm.timestep} after one step'))
                if m.timestep != sm.timestep:
                    out.append(('C02', 'model.timestep != scheduler timestep'))
                # no system twice
                if len(set(ran)) != len(ran):
                    out.append(('C05' if (w.removed or w.added) else 'C02', f'a system ran twice in one step: {ran_ids}'))
                # order among those that ran: priority desc, registration asc (for systems registered at step start)
                pos = {id(s): k for k, s in enumerate(start_reg)}
                seq = [pos[r] for r in ran if r in pos]
                if seq != sorted(seq):
                    out.append(('C05' if (w.removed or w.added) else 'C01', f'run order {ran_ids} violates priority/registration order'))
                # completeness / due-ness
                completed_at = None
                for k, s in enumerate(start_reg):
                    stayed = id(s) not in w.removed
                    isdue = due(s, t0)
                    did = id(s) in ran
                    if did and not isdue:
                        out.append(('C02', f'{s.id} ran at t={t0} outside its window'))
                    if isdue and stayed and not did and m.is_running():
                        out.append(('C05' if (w.removed or w.added) else 'C02', f'{s.id} due at t={t0} did not run'))
                if not m.is_running():
                    # nothing may run after the completing system: the completing system is the last in the log
                    completers = [x for x in w.log if any(a[0] == 'complete' for a in _script_of(start_reg, w, x[2]))]
                    if completers:
                        first = w.log.index(completers[0])
                        if len(w.log) > first + 1:
                            out.append(('C06', f'systems ran after completion: {ran_ids[first + 1:]}'))
                # removed before its turn must not run
                # (a system removed mid-step by an earlier system and not re-added)
                order_idx = {id(s): k for k, s in enumerate(start_reg)}
        elif kind == 'bad_exec':
            t0 = sm.timestep
            try:
                m.execute(op[1])
                out.append(('C02', f'execute({op[1]!r}) accepted'))
            except (TypeError, ValueError):
                pass
            if sm.timestep != t0:
                out.append(('C02', f'rejected execute({op[1]!r}) advanced time'))
    return out


def _script_of(start_reg, w, ident):
    for s in start_reg:
        if id(s) == ident:
            return s.script
    return []


# ------------------------------------------------------------------------------------------------ generators
def small_histories():
    """Exhaustive small scope: up to 3 systems, priorities in {-1,0,1}, a few windows; then steps."""
    prios = [-1, 0, 1]
    for n in (1, 2, 3):
        for ps in itertools.product(prios, repeat=n):
            ops = [('add', f's{k}', p, 1, 0, None, []) for k, p in enumerate(ps)]
            yield ops + [('step', 2)]
            if n >= 2:
                yield ops + [('remove', 's0'), ('add', 's0', ps[0], 1, 0, None, []), ('step', 1)]
                yield ops + [('add', 's1', 5, 1, 0, None, []), ('remove', 'zz'), ('step', 1)]
    for f, st, en in itertools.product([1, 2, 3], [-2, 0, 1, 3], [None, 0, 2, 4]):
        yield [('add', 'a', 0, f, st, en, []), ('add', 'b', 0, 1, 0, None, []), ('step', 6)]
    for pos in range(3):
        ops = [('add', f's{k}', 2 - k, 1, 0, None, [('complete', 1)] if k == pos else []) for k in range(3)]
        yield ops + [('step', 3), ('step_err',), ('exec', 2), ('add', 'late', 9, 1, 0, None, []), ('step', 1)]
    yield [('add', 'a', 0, 1, 0, None, []), ('complete',), ('step', 1), ('step_err',), ('exec', 3)]
    yield [('add', 'a', 0, 1, 0, None, []), ('bad_exec', 0), ('bad_exec', -1), ('bad_exec', 2.0), ('bad_exec', '3'),
           ('bad_exec', None), ('exec', 3), ('step', 1)]


def dynamic_histories():
    """C05: systems editing the system set mid-step."""
    for pos in range(3):
        for target in range(3):
            ops = [('add', f's{k}', 0, 1, 0, None, [('remove', f's{target}', 1)] if k == pos else []) for k in range(3)]
            yield ops + [('step', 3)]
        for prio in (-1, 0, 5):
            ops = [('add', f's{k}', 0, 1, 0, None, [('add', 'new', prio, 1)] if k == pos else []) for k in range(3)]
            yield ops + [('step', 3)]
    for pa, pb, pc in itertools.product([0, 1], repeat=3):
        yield [('add', 'a', pa, 1, 0, None, [('remove', 'a', 0)]), ('add', 'b', pb, 1, 0, None, []),
               ('add', 'c', pc, 1, 0, None, [('add', 'n', 2, 0)]), ('step', 2)]


def random_history(rng, dynamic=False):
    ops = []
    ids = [f's{k}' for k in range(5)]
    for _ in range(rng.randint(3, 10)):
        r = rng.random()
        if r < 0.45:
            script = []
            if rng.random() < 0.1:
                script.append(('complete', rng.randint(0, 6)))
            if dynamic and rng.random() < 0.4:
                if rng.random() < 0.5:
                    script.append(('remove', rng.choice(ids), rng.randint(0, 4)))
                else:
                    script.append(('add', 'n%d' % rng.randint(0, 2), rng.randint(-2, 3), rng.randint(0, 4)))
            ops.append(('add', rng.choice(ids), rng.randint(-2, 2), rng.randint(1, 4), rng.randint(-3, 4),
                        rng.choice([None, None, rng.randint(-1, 8)]), script))
        elif r < 0.6:
            ops.append(('remove', rng.choice(ids)))
        elif r < 0.9:
            ops.append(('step', rng.randint(1, 4)))
        elif r < 0.95:
            ops.append(('exec', rng.randint(1, 3)))
        else:
            ops.append(('step_err',))
    return ops


def histories(seed, budget, dynamic=False):
    if dynamic:
        yield from dynamic_histories()
    else:
        yield from small_histories()
    rng = random.Random(seed)
    for _ in range(budget):
        yield random_history(rng, dynamic)
