"""Collector histories (C17): AgentCollector records and the FileCollector "file ++ held == collected" invariant.

history: ('agent', include_timestep, composite_kind, window(start, end, freq), [ops])
           ops: ('join', id, value|None) ('leave', id) ('set', id, value|None) ('step',)
         ('file', write_count, [n_records_per_collection ...])
"""
import os
import random
import sys
import tempfile

sys.path.insert(0, '/verif')
from replayers import monitor    # noqa: E402

BIG = sys.maxsize


def run_history(h, props=None):
    from ECAgent.Core import Model, Agent, System
    from ECAgent.Collectors import AgentCollector, FileCollector
    out = []

    class UModel(Model):
        _verif_user = True
        timestep = 0.25            # the user's own attribute (hours per tick): not the scheduler's step counter
    if h[0] == 'agent':
        _, incl, comp_kind, (start, end, freq), ops = h
        m = UModel(seed=1)
        vals = {}
        shared = {'n': 0}

        def agent_fn(a):
            return vals.get(a.id)

        def comp_fn(agents):
            if comp_kind == 'none':
                return None
            if comp_kind == 'count':
                return {'count': len(agents)}
            if comp_kind == 'odict':
                import collections
                return collections.OrderedDict(count=len(agents))      # any mapping the caller hands back is data
            if comp_kind == 'same':
                shared['n'] += 1
                shared['total'] = shared['n']
                return shared
            return {}
        coll = AgentCollector(m, agent_fn, None if comp_kind == 'nofunc' else comp_fn, incl, start=start,
                              end=BIG if end is None else end, frequency=freq)

        class Mover(System):
            _verif_user = True

            def execute(self):
                pass
        m.systems.add_system(Mover('mover', m))
        m.systems.add_system(coll)
        expected = []
        for k, op in enumerate(ops):
            w = f'after op {k} {op!r}'
            if op[0] == 'join':
                if op[1] not in m.environment.agents:
                    m.environment.add_agent(Agent(op[1], m))
                vals[op[1]] = op[2]
            elif op[0] == 'leave':
                if op[1] in m.environment.agents:
                    m.environment.remove_agent(op[1])
            elif op[0] == 'set':
                vals[op[1]] = op[2]
            elif op[0] == 'retire':
                # a one-shot system queued just ahead of the collector retires itself when it runs (clean_up): the
                # collector still has its turn in that timestep
                class Once(System):
                    _verif_user = True

                    def execute(self):
                        self.clean_up()
                m.systems.add_system(Once(f'once{k}', m))
            elif op[0] == 'step':
                t = m.systems.timestep
                due = start <= t <= (BIG if end is None else end) and (t - start) % freq == 0
                before = [dict(r) for r in coll.records]
                ids_before = [id(r) for r in coll.records]
                m.execute()
                if due:
                    rec = {}
                    if incl:
                        rec['timestep'] = t
                    for aid in m.environment.agents:
                        if vals.get(aid) is not None:
                            rec[aid] = vals[aid]
                    if comp_kind in ('count', 'odict'):
                        rec['count'] = len(m.environment.agents)
                    elif comp_kind == 'same':
                        rec['n'] = shared['n']
                        rec['total'] = shared['total']
                    if rec:
                        expected.append(rec)
                got = coll.records
                if [id(r) for r in got[:len(ids_before)]] != ids_before or [dict(r) for r in got[:len(before)]] != before:
                    out.append(('C17', f'{w}: earlier records were altered'))
                if len(got) != len(expected):
                    out.append(('C17', f'{w}: {len(got)} records, expected {len(expected)}'))
                elif expected and due and dict(got[-1]) != expected[-1]:
                    out.append(('C17', f'{w}: newest record {dict(got[-1])}, expected {expected[-1]}'))
                if len({id(r) for r in got}) != len(got):
                    out.append(('C17', f'{w}: one dictionary object recorded twice'))
            if len(out) > 3:
                break
    else:
        _, write_count, counts = h[:3]
        fstart, fend, ffreq = h[3] if len(h) > 3 else (0, None, 1)
        m = UModel(seed=1)
        fd, path = tempfile.mkstemp(prefix='verif-c17-', suffix='.txt')
        os.close(fd)
        os.unlink(path)
        try:
            plan = list(counts)

            class Lines(FileCollector):
                _verif_user = True

                def collect(self):
                    n = plan[self.model.systems.timestep] if self.model.systems.timestep < len(plan) else 0
                    for i in range(n):
                        self.records.append(f't{self.model.systems.timestep}.r{i}\n')
            import numpy as np
            # the flag arrives as whatever truthy value the caller computed it as
            flag = (True, np.True_, 1)[(write_count + len(counts)) % 3]
            fc = Lines('fc', m, path, write_count=write_count, clear_records_on_write=flag, start=fstart,
                       end=BIG if fend is None else fend, frequency=ffreq)
            m.systems.add_system(fc)
            collected = []
            ncoll = 0
            done_counts = []
            for t, n in enumerate(counts):
                m.execute()
                due = fstart <= t <= (BIG if fend is None else fend) and (t - fstart) % ffreq == 0
                if not due:
                    text = open(path).read() if os.path.exists(path) else ''
                    if text + ''.join(fc.records) != ''.join(collected):
                        out.append(('C17', f'window {(fstart, fend, ffreq)}: the collector acted at timestep {t} outside its '
                                           f'window: file={text!r:.80} held={"".join(fc.records)!r:.80}'))
                        break
                    continue
                collected += [f't{t}.r{i}\n' for i in range(n)]
                done_counts.append(n)
                ncoll += 1
                text = open(path).read() if os.path.exists(path) else ''
                held = ''.join(fc.records)
                w = f'write_count={write_count}, after timestep {t} (records per collection {counts})'
                if text + held != ''.join(collected):
                    out.append(('C17', f'{w}: file + held records differ from everything collected: '
                                       f'file={text!r:.80} held={held!r:.80} collected={"".join(collected)!r:.80}'))
                # a flush after every (write_count + 1)-th collection: then nothing is held
                if ncoll % (write_count + 1) == 0:
                    if fc.records:
                        out.append(('C17', f'{w}: collection #{ncoll} must flush but {len(fc.records)} records are held'))
                    if text != ''.join(collected):
                        out.append(('C17', f'{w}: after the flush the file must hold everything collected'))
                else:
                    whole = ''.join(collected[:sum(done_counts[:ncoll - (ncoll % (write_count + 1))])])
                    if text != whole:
                        out.append(('C17', f'{w}: the file is not a whole-flush prefix: {text!r:.80} expected {whole!r:.80}'))
                if len(out) > 3:
                    break
        finally:
            if os.path.exists(path):
                os.unlink(path)
    return out


def histories(seed, budget, prop='C17'):
    rng = random.Random(seed)
    for incl in (False, True):
        for comp in ('nofunc', 'none', 'count', 'same', 'empty', 'odict'):
            yield ('agent', incl, comp, (0, None, 1),
                   [('step',), ('join', 'a', 1), ('step',), ('join', 'b', None), ('step',), ('set', 'b', 5), ('step',),
                    ('leave', 'a'), ('step',), ('set', 'b', None), ('step',), ('step',), ('join', 'a', 0), ('step',)])
    for incl in (False, True):
        yield ('agent', incl, 'count', (0, None, 1),
               [('join', 'a', 1), ('step',), ('retire',), ('step',), ('step',), ('retire',), ('retire',), ('step',), ('step',)])
    for start, end, freq in ((2, 5, 2), (0, 0, 1), (1, None, 3), (3, 2, 1)):
        yield ('agent', True, 'count', (start, end, freq), [('join', 'a', 1)] + [('step',)] * 8)
    for wc in (0, 1, 2, 3):
        for counts in ([1] * 7, [0, 1, 0, 2, 1, 0, 0, 3], [2, 0, 0, 0, 1], [0, 0, 0, 0], [1, 0, 1, 0, 1, 0, 1]):
            yield ('file', wc, counts)
    for win in ((1, 4, 1), (0, 0, 1), (2, 7, 2), (3, 2, 1), (1, None, 3)):
        for wc in (0, 2):
            yield ('file', wc, [1, 2, 0, 1, 1, 3, 1, 0, 2, 1], win)
    for _ in range(budget):
        if rng.random() < 0.5:
            yield ('file', rng.randint(0, 4), [rng.choice([0, 0, 1, 1, 2, 3]) for _ in range(rng.randint(1, 12))],
                   rng.choice([(0, None, 1), (0, None, 1), (rng.randint(0, 3), rng.choice([None, rng.randint(0, 8)]),
                                                            rng.randint(1, 3))]))
        else:
            ops = []
            for _ in range(rng.randint(3, 14)):
                r = rng.random()
                if r < 0.3:
                    ops.append(('join', rng.choice('abc'), rng.choice([None, 0, 1, 7])))
                elif r < 0.4:
                    ops.append(('leave', rng.choice('abc')))
                elif r < 0.55:
                    ops.append(('set', rng.choice('abc'), rng.choice([None, 2, 3])))
                elif r < 0.6:
                    ops.append(('retire',))
                else:
                    ops.append(('step',))
            yield ('agent', rng.random() < 0.5, rng.choice(['nofunc', 'none', 'count', 'same', 'empty', 'odict']),
                   (rng.randint(-1, 3), rng.choice([None, None, rng.randint(0, 8)]), rng.randint(1, 3)), ops)
