#!/usr/bin/env python3
"""Regenerate /verif/MANIFEST.json from contracts/props.py (claimed checks) + the not-applicable list."""
import json, os, sys
ROOT = os.path.dirname(os.path.dirname(os.path.abspath(__file__)))
sys.path.insert(0, ROOT)
from contracts.props import PROPS, NOT_APPLICABLE   # noqa
ids = [json.loads(l)['id'] for l in open(os.path.join(ROOT, 'properties.jsonl'))]
checks = []
for cid in ids:
    if cid not in PROPS or not PROPS[cid].get('claimed', True):
        continue
    P = PROPS[cid]
    checks.append(dict(
        property_id=cid,
        quick_cmd=f'./check {cid} --tier quick',
        thorough_cmd=f'./check {cid} --tier thorough',
        evidence_file=f'evidence/{cid}.json',
        replay_cmd_template='./check replay {path}',
        engine='pyvc',
        level_claimed=dict(category=P.get('level', 'proof'), text=P['level_text'], design_ref=P.get('design_ref', f'DESIGN.md 5/{cid}')),
        level_note=P['level_note'] + ((' Callee contracts used as hypotheses are verified by the same check with their whole '
                                       'contract (dependency plan): ' + ', '.join(P['deps']) + '.') if P.get('deps') else ''),
        technique=P.get('technique', 'contract-based deductive verification: VCs generated from the AST of the real '
                        'functions against sidecar contracts, discharged by z3/cvc5; failing obligations replayed natively')))
na = [dict(property_id=c, reason=NOT_APPLICABLE.get(c, 'check not built yet (build in progress)')) for c in ids
      if c not in {x['property_id'] for x in checks}]
import re as _re
_kf = json.load(open(os.path.join(ROOT, 'known_findings.json')))
FIXNOTE = ('Genuine defects repaired by unguarded `fix:` commits in /repo (known_findings.json, `fixed`): ' +
           ', '.join(_re.findall(r'property=(C\d+) ([0-9a-f]{7})', ' '.join(_kf.get('fixed', []))) and
                     [f'{c} {h}' for c, h in _re.findall(r'property=(C\d+) ([0-9a-f]{7})', ' '.join(_kf.get('fixed', [])))]) +
           '; open findings printed as KNOWN-FINDING: ' + ', '.join(f['id'] for f in _kf.get('findings', []) if f.get('status') == 'open') + '.')
m = dict(version=1,
         setup_cmd='./check selftest --fast',
         hooks=dict(guard='ECAGENT_VERIF', enable='none needed: contracts are sidecar files; /repo carries no instrumentation',
                    baseline_off_cmd='cd /repo && /venv/bin/python -m pytest -ra -q -p no:cacheprovider --timeout=900 --continue-on-collection-errors',
                    source_commits=[], add_only=True),
         engines=[dict(name='pyvc', path='pyvc/', serves_properties=[c['property_id'] for c in checks],
                       kind_free_text='self-built deductive verifier for the Python subset ECAgent uses: AST of the real '
                       'source -> symbolic execution against sidecar contracts -> named SMT obligations (z3 5.1, cvc5, z3 4.8); '
                       'native replay / run-time contract monitoring under /venv/bin/python')],
         checks=checks,
         notes=FIXNOTE + ' See DESIGN.md. Exit codes: 0 held (a DEGRADED line means: a function left the subset the engine reads, nothing proved about it on that run, run-time contract monitoring on small-scope histories stood in, evidence level other), 1 VIOLATION, 2 undecided, 3 checker error.',
         not_applicable=na)
json.dump(m, open(os.path.join(ROOT, 'MANIFEST.json'), 'w'), indent=1)
print('checks:', [c['property_id'] for c in checks], 'n/a:', [x['property_id'] for x in na])
