#!/bin/bash
# tools/seedall.sh [outfile] [jobs]: run every kept seed against its own property's quick check (scratch copy of /repo);
# writes a markdown table (default seeded/RESULTS.md).  A seed whose patch no longer applies is reported as such.
cd "$(dirname "$0")/.."
out=${1:-seeded/RESULTS.md}
jobs=${2:-4}
tmpd=$(mktemp -d)
one() {
  d=$1; tmpd=$2
  s=$(basename $d); c=${s%-*}
  res=$(tools/seedtest.sh $d/patch.diff $c 2>&1)
  if echo "$res" | grep -q "patch failed"; then verdict="patch does not apply";
  elif echo "$res" | grep -q "^VIOLATION"; then verdict="VIOLATION";
  elif echo "$res" | grep -q "UNDECIDED"; then verdict="UNDECIDED (exit 2)";
  elif echo "$res" | grep -q "CHECKER-ERROR"; then verdict="CHECKER-ERROR (exit 3)";
  else verdict="MISSED"; fi
  obs=$(echo "$res" | grep "failed-obligation" | head -3 | sed 's/ *failed-obligation //' | tr '\n' ';' | sed 's/|/\\|/g')
  nat=$(echo "$res" | grep "^VIOLATION" | head -1 | grep -q "no-failing-input-found" && echo "no" || (echo "$res" | grep -q "^VIOLATION" && echo "yes" || echo "-"))
  echo "| $s | $c | $verdict | $obs | $nat |" > $tmpd/$s.row
  echo "$s $verdict"
}
export -f one
ls -d seeded/C*-*/ | xargs -P $jobs -I{} bash -c 'one {} '"$tmpd"
{ echo "| seed | property | verdict | failed obligations (first 3) | replay found by native search |"
  echo "|---|---|---|---|---|"
  cat $(ls $tmpd/*.row | sort -V); } > $out
rm -rf $tmpd
