#!/bin/bash
# tools/seedall.sh [outfile]: run every kept seed against its own property's quick check (scratch copy of /repo);
# writes a markdown table (default seeded/RESULTS.md).  A seed whose patch no longer applies is reported as such.
cd "$(dirname "$0")/.."
out=${1:-seeded/RESULTS.md}
tmp=$(mktemp)
echo "| seed | property | verdict | failed obligations (first 3) | replay found by native search |" > $tmp
echo "|---|---|---|---|---|" >> $tmp
for d in seeded/C*-*/; do
  s=$(basename $d); c=${s%-*}
  res=$(tools/seedtest.sh $d/patch.diff $c 2>&1)
  if echo "$res" | grep -q "patch failed"; then verdict="patch does not apply"; 
  elif echo "$res" | grep -q "^VIOLATION"; then verdict="VIOLATION"; 
  elif echo "$res" | grep -q "UNDECIDED"; then verdict="UNDECIDED (exit 2)";
  elif echo "$res" | grep -q "CHECKER-ERROR"; then verdict="CHECKER-ERROR (exit 3)";
  else verdict="MISSED"; fi
  obs=$(echo "$res" | grep "failed-obligation" | head -3 | sed 's/ *failed-obligation //' | tr '\n' ';' | sed 's/|/\\|/g')
  nat=$(echo "$res" | grep "^VIOLATION" | head -1 | grep -q "no-failing-input-found" && echo "no" || (echo "$res" | grep -q "^VIOLATION" && echo "yes" || echo "-"))
  echo "| $s | $c | $verdict | $obs | $nat |" >> $tmp
  echo "$s $verdict"
done
mv $tmp $out
