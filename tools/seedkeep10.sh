#!/bin/bash
# tools/seedkeep2.sh <worktree> <Cid> <n_in_worktree> <keep_as_n> <needs...>
wt=$1; c=$2; n=$3; k=$4; shift 4
d=/verif/seeded/$c-$k
mkdir -p $d
cp $wt/seed$n.diff $d/patch.diff; cp $wt/seed${n}_demo.py $d/demo.py; cp $wt/seed$n.txt $d/notes.txt
python3 - "$c" "$k" "$*" <<'PY'
import json,sys
c,n,needs=sys.argv[1:4]
json.dump(dict(property=c, needs=needs, round=10, author='independent sub-agent given only the property text and a scratch worktree (round 10: user subclasses and dispatch, numeric types at the API boundary, statement order and lifecycle)',
  confirmed=['demo exits 0 on the unmodified tree', 'demo exits 1 with patch.diff applied', 'full test-suite: 110 passed with patch.diff applied'],
  ran='tools/seedconfirm.sh <worktree> <n>', detected_by=None), open(f'/verif/seeded/{c}-{n}/meta.json','w'), indent=1)
PY
