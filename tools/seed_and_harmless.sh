#!/bin/bash
# tools/seed_and_harmless.sh: all seeds, then all harmless refactorings (writes seeded/RESULTS.md, seeded/HARMLESS.md)
cd "$(dirname "$0")/.."
tools/seedall.sh ${1:-seeded/RESULTS.md} 5
tools/harmlessall.sh ${2:-seeded/HARMLESS.md} 4
