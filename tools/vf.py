#!/usr/bin/env python3-vt
"""tools/vf.py <Cid> <function key> [timeout_ms]: verify one function under the focus of one property (dev helper)."""
import os, sys
sys.path.insert(0, os.path.join(os.path.dirname(os.path.abspath(__file__)), '..'))
from pyvc.cli import load
from pyvc import verify, solve
cid, key = sys.argv[1], sys.argv[2]
tmo = int(sys.argv[3]) if len(sys.argv) > 3 else 8000
prog, reg, PROPS = load()
P = PROPS[cid]
deps = P.get('deps', {})
if not isinstance(deps, dict):
    deps = {k: sorted(set(reg.contracts[k].ensures) | set(reg.contracts[k].props)) for k in deps}
focus = dict(cid=cid, deps=deps)
c = reg.contracts[key]
ft = {cid} | set(deps.get(key, ())) | set(deps.get(key.split('#')[0], ()))
for mode in c.modes:
    for case in (c.cases or [None]):
        if case is not None and case.get('mode') not in (None, mode):
            continue
        rep = verify.verify_function(prog, reg, key, mode=mode, case=case, focus=focus)
        obs = [o for o in rep.obs if ft & set(o.props)]
        solve.discharge(obs, timeout_ms=tmo)
        print(f'{key} [{mode}] {case and case["name"]}: paths={rep.paths} obligations={len(obs)} error={rep.error} callees={sorted(rep.callees)}')
        for o in obs:
            if o.result != 'unsat':
                print('   ', o.name, o.result, o.props, str(o.goal)[:200].replace('\n', ' '))
                if os.environ.get('VF_HYPS'):
                    for h in o.hyps[-int(os.environ['VF_HYPS']):]:
                        print('        H:', str(h)[:300].replace('\n', ' '))
solve.close()
