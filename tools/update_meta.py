#!/usr/bin/env python3
"""tools/update_meta.py [seeded/RESULTS.md]: copy each seed's verdict from the results table into seeded/<id>/meta.json
(detected_by = verdict, first failed obligations, whether the native search produced a replayable input)."""
import json, os, sys
root = os.path.join(os.path.dirname(os.path.abspath(__file__)), '..')
table = sys.argv[1] if len(sys.argv) > 1 else os.path.join(root, 'seeded', 'RESULTS.md')
n = 0
for line in open(table):
    cells = [c.strip() for c in line.strip().strip('|').split('|')]
    if len(cells) < 5 or not cells[0].startswith('C') or '-' not in cells[0]:
        continue
    sid, prop, verdict, obs, native = cells[:5]
    mp = os.path.join(root, 'seeded', sid, 'meta.json')
    if not os.path.exists(mp):
        continue
    m = json.load(open(mp))
    m['detected_by'] = dict(check=prop, verdict=verdict, failed_obligations=[o for o in obs.split(';') if o.strip()][:3],
                            replayable_input=(native == 'yes'))
    json.dump(m, open(mp, 'w'), indent=1)
    n += 1
print(n, 'meta files updated')
