#!/usr/bin/env python3-vt
"""tools/checks_for_patch.py <patch.diff>: the checks whose plan (functions + dependencies + inlined callees) contains a
function the patch touches.  Prints the property ids, space separated."""
import ast, os, subprocess, sys, tempfile, shutil
sys.path.insert(0, os.path.join(os.path.dirname(os.path.abspath(__file__)), '..'))


def funcs(src):
    out = {}
    tree = ast.parse(src)
    for node in tree.body:
        if isinstance(node, ast.FunctionDef):
            out[node.name] = ast.dump(node)
        elif isinstance(node, ast.ClassDef):
            for n in node.body:
                if isinstance(n, ast.FunctionDef):
                    out[f'{node.name}.{n.name}'] = ast.dump(n)
    return out


def main():
    patch = os.path.abspath(sys.argv[1])
    d = tempfile.mkdtemp(prefix='cfp-')
    try:
        shutil.copytree('/repo/ECAgent', os.path.join(d, 'ECAgent'))
        subprocess.run(['patch', '-s', '-p1', '-i', patch], cwd=d, check=True)
        touched = set()
        for f in os.listdir('/repo/ECAgent'):
            if not f.endswith('.py'):
                continue
            a = funcs(open(os.path.join('/repo/ECAgent', f), newline='').read())
            b = funcs(open(os.path.join(d, 'ECAgent', f), newline='').read())
            for k in set(a) | set(b):
                if a.get(k) != b.get(k):
                    touched.add(f'{f[:-3]}.{k}')
    finally:
        shutil.rmtree(d, ignore_errors=True)
    from pyvc.specs import REG
    import contracts.all    # noqa: F401
    from contracts.props import PROPS
    inline = {k.split('#')[0] for k, c in REG.contracts.items() if c.use == 'inline'}
    cids = []
    for cid, P in sorted(PROPS.items()):
        plan = {k.split('#')[0].split('@')[0] for k in list(P['functions']) + list(P.get('deps', []))}
        # inlined callees are executed as part of their callers: count them for every property of the same module family
        if touched & plan or (touched & inline and any(t.split('.')[0] == k.split('.')[0] for t in touched & inline for k in plan)):
            cids.append(cid)
    print(' '.join(cids))
    print('touched:', ' '.join(sorted(touched)), file=sys.stderr)


main()
