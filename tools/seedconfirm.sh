#!/bin/bash
# tools/seedconfirm.sh <worktree> <n> : confirm seed n of a sub-agent worktree (suite green with patch; demo fails with, passes without)
wt=$1; n=$2
cd $wt || exit 9
git checkout -q -- ECAgent
PYTHONPATH=$wt /venv/bin/python seed${n}_demo.py >/dev/null 2>&1; echo "demo on clean tree: exit $?"
git apply seed${n}.diff || { echo "apply failed"; exit 9; }
PYTHONPATH=$wt /venv/bin/python seed${n}_demo.py 2>&1 | tail -3; echo "demo with patch: exit ${PIPESTATUS[0]}"
PYTHONPATH=$wt /venv/bin/python -m pytest -q -p no:cacheprovider tests 2>&1 | tail -1
git checkout -q -- ECAgent
