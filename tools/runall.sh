#!/bin/bash
# run every claimed check on the unchanged tree (refreshes evidence); prints one line each + non-zero exits
cd "$(dirname "$0")/.."
tier=${1:-quick}
ids=$(python3 -c "import json;print(' '.join(c['property_id'] for c in json.load(open('MANIFEST.json'))['checks']))")
bad=0
for c in $ids; do
  out=$(./check $c --tier $tier 2>&1); rc=$?
  echo "$out" | tail -1
  if [ $rc -ne 0 ]; then echo "   !!! $c exit $rc"; echo "$out" | grep -E "VIOLATION|UNDECIDED|CHECKER" | head -5; bad=1; fi
done
exit $bad
