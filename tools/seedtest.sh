#!/bin/bash
# tools/seedtest.sh <patch.diff> <Cid> [<Cid>...] : run checks against a scratch copy of /repo with the patch applied
set -u
patch=$(readlink -f "$1"); shift
d=$(mktemp -d /tmp/seedtest-XXXX)
cp -r /repo/ECAgent "$d/ECAgent"
( cd "$d" && patch -s -p1 < "$patch" ) || { echo "patch failed"; rm -rf "$d"; exit 9; }
cd "$(dirname "$0")/.."
for c in "$@"; do
  VERIF_OUTDIR="$d/outdir" VERIF_REPO="$d" ./check "$c" --tier quick 2>&1 | grep -E "VIOLATION|UNDECIDED|CHECKER|DEGRADED|KNOWN|failed-obligation|^C[0-9]+:" | head -12
done
rm -rf "$d"
