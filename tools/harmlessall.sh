#!/bin/bash
# tools/harmlessall.sh [outfile]: every behaviour-preserving refactoring kept under seeded/harmless*/ against every check
# whose plan (functions + dependencies) contains the touched function.  Expected: exit 0 everywhere.
cd "$(dirname "$0")/.."
out=${1:-seeded/HARMLESS.md}
declare -A M1=( [1]="C01 C02 C05 C06 C18" [2]="C01 C02 C05 C06 C15" [3]="C02 C06 C15" [4]="C13 C07" [5]="C08" [6]="C09 C11" [7]="C10"
                [8]="C14 C15 C16" [9]="C16" [10]="C17" [11]="C19" [12]="C18" )
declare -A M2=( [1]="C01 C02 C05 C06" [2]="C03 C04 C08 C18" [3]="C03 C04 C08" [4]="C03 C04 C08 C18" [5]="C03 C04 C08" [6]="C03 C04 C08"
                [7]="C08" [8]="C12" [9]="C10" [10]="C11" [11]="C17" [12]="C15" )
tmp=$(mktemp)
echo "| refactoring | what | checks run | result |" > $tmp
echo "|---|---|---|---|" >> $tmp
bad=0
for b in harmless harmless2; do
  for i in 1 2 3 4 5 6 7 8 9 10 11 12; do
    if [ $b = harmless ]; then cs=${M1[$i]}; else cs=${M2[$i]}; fi
    res=$(tools/seedtest.sh seeded/$b/refactor$i.diff $cs 2>&1)
    n=$(echo "$res" | grep -cE "^C[0-9]+:.*exit=0")
    want=$(echo $cs | wc -w)
    if [ "$n" = "$want" ] && ! echo "$res" | grep -qE "VIOLATION|UNDECIDED|CHECKER-ERROR"; then r="all exit 0"; else r="ALARM: $(echo "$res" | grep -E "VIOLATION|UNDECIDED|CHECKER|failed-ob" | head -3 | tr '\n' ';' | sed 's/|/\\|/g')"; bad=1; fi
    echo "| $b/refactor$i | $(head -1 seeded/$b/refactor$i.txt | cut -c1-140 | sed 's/|/\\|/g') | $cs | $r |" >> $tmp
    echo "$b/refactor$i: $r"
  done
done
mv $tmp $out
exit $bad
