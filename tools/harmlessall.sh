#!/bin/bash
# tools/harmlessall.sh [outfile] [jobs]: every behaviour-preserving refactoring kept under seeded/harmless*/ against every
# check whose plan (functions + dependencies) contains a function it touches (tools/checks_for_patch.py).
# Expected: exit 0 everywhere (a DEGRADED line is allowed - it is not an alarm - and is shown in the table).
cd "$(dirname "$0")/.."
out=${1:-seeded/HARMLESS.md}
jobs=${2:-3}
tmpd=$(mktemp -d)
one() {
  f=$1; tmpd=$2
  b=$(basename $(dirname $f)); n=$(basename $f .diff)
  cs=$(python3-vt tools/checks_for_patch.py $f 2>/dev/null)
  if [ -z "$cs" ]; then r="no check has this function in its plan"; else
    res=""
    d=$(mktemp -d /tmp/hl-XXXX); cp -r /repo/ECAgent $d/ECAgent; af=$(readlink -f $f); (cd $d && patch -s -p1 -i "$af") || res="patch failed"
    for c in $cs; do res="$res
$(VERIF_OUTDIR=$d/outdir VERIF_REPO=$d ./check $c --tier quick 2>&1 | grep -E "VIOLATION|UNDECIDED|CHECKER|DEGRADED|failed-obligation|^C[0-9]+:")"; done
    rm -rf $d
    n_ok=$(echo "$res" | grep -cE "^C[0-9]+:.*exit=0"); want=$(echo $cs | wc -w)
    if [ "$n_ok" = "$want" ] && ! echo "$res" | grep -qE "VIOLATION|UNDECIDED|CHECKER-ERROR|patch failed"; then
      r="all exit 0"; echo "$res" | grep -q DEGRADED && r="all exit 0 (DEGRADED: $(echo "$res" | grep DEGRADED | head -1 | cut -c1-160 | sed 's/|/\\|/g'))"
    else r="ALARM: $(echo "$res" | grep -E "VIOLATION|UNDECIDED|CHECKER|failed-ob|patch failed" | head -3 | tr '\n' ';' | sed 's/|/\\|/g')"; fi
  fi
  echo "| $b/$n | $(head -1 ${f%.diff}.txt | cut -c1-150 | sed 's/|/\\|/g') | $cs | $r |" > $tmpd/$b-$n.row
  echo "$b/$n [$cs]: $r"
}
export -f one
ls seeded/harmless*/refactor*.diff | sort -V | xargs -P $jobs -I{} bash -c 'one {} '"$tmpd"
{ echo "| refactoring | what | checks run | result |"; echo "|---|---|---|---|"; cat $(ls $tmpd/*.row | sort -V); } > $out
bad=$(grep -c "ALARM" $out); rm -rf $tmpd
echo "alarms: $bad"; [ "$bad" = 0 ]
