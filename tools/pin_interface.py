#!/usr/bin/env python3
"""tools/pin_interface.py: (re)generate contracts/interface.json from the current /repo source - the declared interface the
sidecar contracts were written against: for every function of the package its parameters (name, kind, default
text) in order, its decorators, and for every module the origin of each imported name.  Run deliberately (after reading
the diff) when the interface is changed on purpose; the scans `signature` / `imports` / `aliases` compare against it."""
import ast, json, os, sys
ROOT = os.path.dirname(os.path.dirname(os.path.abspath(__file__)))
REPO = os.environ.get('VERIF_REPO', '/repo')
MODULES = ['Core', 'Environments', 'Batching', 'Collectors', 'Tags', 'Decode']


def params(fn):
    a = fn.args
    pos = a.posonlyargs + a.args
    d = [None] * (len(pos) - len(a.defaults)) + list(a.defaults)
    out = [[p.arg, 'pos', ast.unparse(x) if x is not None else None] for p, x in zip(pos, d)]
    if a.vararg:
        out.append([a.vararg.arg, 'var', None])
    for p, x in zip(a.kwonlyargs, a.kw_defaults):
        out.append([p.arg, 'kwonly', ast.unparse(x) if x is not None else None])
    if a.kwarg:
        out.append([a.kwarg.arg, 'kwvar', None])
    return out


def decos(fn):
    return [ast.unparse(d).split('(')[0] for d in fn.decorator_list]


def scan_module(m, repo=REPO):
    src = open(os.path.join(repo, 'ECAgent', m + '.py'), newline='').read()
    tree = ast.parse(src)
    funcs, imports, assigned = {}, {}, []
    for node in tree.body:
        if isinstance(node, ast.FunctionDef):
            funcs[f'{m}.{node.name}'] = dict(params=params(node), decorators=decos(node))
        elif isinstance(node, ast.ClassDef):
            for n in node.body:
                if isinstance(n, ast.FunctionDef):
                    key = f'{m}.{node.name}.{n.name}'
                    if any(d.endswith('.setter') for d in decos(n)):
                        key += '@set'
                    funcs[key] = dict(params=params(n), decorators=decos(n))
        elif isinstance(node, ast.Import):
            for a in node.names:
                imports[a.asname or a.name.split('.')[0]] = a.name
        elif isinstance(node, ast.ImportFrom):
            for a in node.names:
                imports[a.asname or a.name] = f'{node.module}.{a.name}'
        elif isinstance(node, (ast.Assign, ast.AnnAssign)):
            for t in (node.targets if isinstance(node, ast.Assign) else [node.target]):
                if isinstance(t, ast.Name):
                    assigned.append(t.id)
    return funcs, imports, assigned


def build(repo=REPO):
    out = dict(functions={}, imports={}, module_assigned={})
    for m in MODULES:
        f, i, a = scan_module(m, repo)
        out['functions'].update(f)
        out['imports'][m] = i
        out['module_assigned'][m] = a
    return out


if __name__ == '__main__':
    json.dump(build(), open(os.path.join(ROOT, 'contracts', 'interface.json'), 'w'), indent=1, sort_keys=True)
    print('pinned', sum(1 for _ in build()['functions']), 'functions')
