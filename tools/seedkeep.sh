#!/bin/bash
# tools/seedkeep.sh <Cid> <n> <needs...> : keep a confirmed seed under /verif/seeded/<Cid>-<n>/
c=$1; n=$2; shift 2
d=/verif/seeded/$c-$n
mkdir -p $d
cp /tmp/wt-$c/seed$n.diff $d/patch.diff
cp /tmp/wt-$c/seed${n}_demo.py $d/demo.py
cp /tmp/wt-$c/seed$n.txt $d/notes.txt
python3 - "$c" "$n" "$*" <<'PY'
import json,sys
c,n,needs=sys.argv[1:4]
d=f'/verif/seeded/{c}-{n}'
json.dump(dict(property=c, needs=needs, author='independent sub-agent given only the property text and a scratch worktree',
  confirmed=['demo exits 0 on the unmodified tree', 'demo exits 1 with patch.diff applied', 'full test-suite: 110 passed with patch.diff applied (PYTHONPATH=<worktree> /venv/bin/python -m pytest -q tests)'],
  ran='tools/seedconfirm.sh /tmp/wt-%s %s' % (c,n), detected_by=None), open(d+'/meta.json','w'), indent=1)
PY
