"""Sidecar contracts for ECAgent (DESIGN.md 3.5).  Import order registers everything in pyvc.specs.REG."""
