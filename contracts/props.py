"""Per-property check plans: which contracted functions, lemmas and scans decide each property."""

SCHED_ASSUME = ['System.execute is user code: assumed frame (may complete the model and edit agents/components; '
                'does not write timestep, the system set, or scheduling fields; never un-completes)',
                'clients use the public API only (no direct writes to execution_queue / systems / timestep)',
                'ids, priorities and windows of registered systems are not mutated after registration']

PROPS = {
    'C01': dict(
        level_text='Deductive proof, for all integer priorities and all reachable scheduler states: the queue '
                   'representation invariant (priority descending, registration order among equals, queue = registry) is '
                   'established by the constructor and preserved by add_system/remove_system (whole-view postconditions, '
                   'rejected calls change nothing), and a ghost order monitor at the sys.execute() call site proves that '
                   'execute_systems runs systems in that order. All histories follow by invariant induction.',
        level_note='Assumes the user-code contract of System.execute (static view; mid-step edits are C05), client '
                   'discipline (API is the only writer), engine semantics of Python lists/dicts, z3/cvc5.',
        functions=['Core.SystemManager.__init__', 'Core.SystemManager.add_system', 'Core.SystemManager.remove_system',
                   'Core.SystemManager.execute_systems', 'Core.System.__init__'],
        assumptions=SCHED_ASSUME),
    'C02': dict(
        level_text='Deductive proof for all integer start/end/frequency>=1/timestep: the code predicate '
                   '(start - t) % f == 0 is proved equivalent to the stated (t - start) % f == 0 inside the loop '
                   'invariant of execute_systems; ghost run counters prove exactly-once / not-at-all; timestep+1 per '
                   'running step; Model.execute(n) = n steps (loop invariant), rejects non-int / non-positive n.',
        level_note='Assumes System.execute user-code contract, frequency >= 1, engine semantics of Python int %, z3/cvc5. '
                   'bool arguments to Model.execute are left open (property says non-integer).',
        functions=['Core.SystemManager.__init__', 'Core.SystemManager.execute_systems', 'Core.System.__init__',
                   'Core.SystemManager.add_system', 'Core.SystemManager.remove_system', 'Core.Model.__init__', 'Core.Model.execute', 'Core.Model.execute#nonint', 'Core.Model.__getattr__'],
        assumptions=SCHED_ASSUME + ['frequency >= 1 for every registered system (property text)']),
    'C05': dict(
        level_text='Deductive proof of the scheduler loop under the *general* user-code contract: System.execute may '
                   'register / remove any systems (modelled as havoc of queue and registry constrained by the op-sequence '
                   'summary: representation invariant re-established, removed / added ghost sets only grow). Call-site '
                   'monitors prove: no system runs twice, a system removed before its turn does not run, systems '
                   'registered for the whole step run in priority / registration order; the loop invariant over the '
                   'snapshot proves every due system that stayed registered ran exactly once.',
        level_note='Assumes the op-sequence summary for user code (itself a consequence of the add_system / '
                   'remove_system contracts proved under C01), engine semantics of list(...) and dict.get.',
        functions=['Core.SystemManager.execute_systems#dynamic', 'Core.SystemManager.add_system',
                   'Core.SystemManager.remove_system'],
        assumptions=SCHED_ASSUME),
    'C06': dict(
        level_text='Deductive proof: a ghost monitor asserts the model is running at every sys.execute() call site; '
                   'a non-running model makes execute_systems return with nothing changed (or raise ModelCompleteError '
                   'iff asked); complete() sets COMPLETE, is_running/__bool__ read it; finality is a frame fact '
                   '(writer scan: only Model.__init__ and complete write _status).',
        level_note='Assumes System.execute only moves status RUNNING->COMPLETE; client discipline; engine semantics.',
        functions=['Core.Model.__init__', 'Core.Model.complete', 'Core.Model.is_running', 'Core.Model.__bool__',
                   'Core.SystemManager.execute_systems', 'Core.Model.execute', 'Core.SystemManager.add_system',
                   'Core.SystemManager.remove_system'],
        assumptions=SCHED_ASSUME),
}

ENV_ASSUME = ['clients use the public API only (no direct writes to agents / components / component_pools)',
              'a component attached to an agent was constructed for that agent (component.agent is its holder) and '
              'belongs to one agent only; component classes use identity equality (property text)',
              'agent ids are not mutated while resident; an agent is resident in at most one environment of its model',
              'user subclasses do not override the contracted methods']

PROPS.update({
    'C03': dict(
        level_text='Deductive proof that the PoolsMirror invariant (M1-M6: listings = components of resident agents, each '
                   'once, in joining order, no empty listing, one list object per type) is preserved by Environment.'
                   'add_agent / remove_agent for all populations, component mixes and pool contents (loop invariants over '
                   'the dict enumeration; whole-view contracts of register/deregister_component), established by '
                   'Model.__init__, and untouched by component edits on non-resident agents (frames). Edits on resident '
                   'agents are open findings F1-F3b (pinned witnesses).',
        level_note='Assumes component.agent is the holder; API-only writers; engine semantics of dict order and list.remove.',
        functions=['Core.SystemManager.__init__', 'Core.Model.__init__', 'Core.SystemManager.register_component',
                   'Core.SystemManager.deregister_component', 'Core.SystemManager.get_components',
                   'Core.SystemManager.__getitem__#type', 'Core.Environment.__init__', 'Core.Environment.add_agent',
                   'Core.Environment.remove_agent', 'Core.Agent.__init__', 'Core.Agent.add_component',
                   'Core.Agent.remove_component', 'Core.Agent.get_component', 'Core.Agent.add_component#resident',
                   'Core.Agent.remove_component#resident', 'Environments.SpaceWorld.add_agent',
                   'Environments.SpaceWorld.remove_agent'],
        assumptions=ENV_ASSUME),
    'C04': dict(
        level_text='Deductive proof: the agents dict is an ordered map id -> agent; add_agent appends exactly one entry, '
                   'remove_agent deletes exactly one (order of the rest kept), DuplicateAgentError / AgentNotFoundError are '
                   'raised exactly when documented and with the whole heap unchanged (frame obligation over every store), '
                   'removal of a present agent cannot fail under the C03 invariant; lookup, length and iteration read the '
                   'same map.',
        level_note='Assumes C03 invariant as precondition (component sets not edited while resident), API-only writers, '
                   'generator expression read as the list it yields.',
        functions=['Core.Environment.__init__', 'Core.Environment.add_agent', 'Core.Environment.remove_agent',
                   'Core.Environment.get_agent', 'Core.Environment.__len__', 'Core.Environment.__iter__',
                   'Core.Environment.get_agents', 'Core.Agent.__init__', 'Environments.SpaceWorld.__init__', 'Environments.SpaceWorld.add_agent',
                   'Environments.SpaceWorld.remove_agent'],
        assumptions=ENV_ASSUME),
    'C13': dict(
        level_text='Deductive proof: get_agents returns a fresh list that is sound, complete and in joining order for the '
                   'filter "has every template type and (tag is None or tag equal)" - both code paths and the tag '
                   'comprehension are summarised by the enumeration law; has_component by loop invariant; '
                   'get_random_agent / shuffle proved from that contract and the assumed Random contracts.',
        level_note='Assumes random.Random.choice returns an element / shuffle permutes in place; reachability of every '
                   'candidate is a property of the generator (not claimed).',
        functions=['Core.Agent.has_component', 'Core.Agent.__contains__', 'Core.Environment.get_agents',
                   'Core.Environment.get_random_agent', 'Core.Environment.shuffle'],
        assumptions=ENV_ASSUME),
    'C20': dict(
        level_text='Deductive proof: every agent class gets a fresh component store and tag from the metaclass '
                   'constructor; each class-level operation has a whole-view postcondition and a frame limited to that '
                   "class's own store / tag, so parents, children, siblings and instances are untouched; duplicate "
                   'attach / absent detach are rejected with nothing changed; Agent.__init__ takes the explicit tag or '
                   'the default tag of its own class.',
        level_note='Class objects modelled as heap objects at negative references; no other writer of _components/_tag '
                   '(writer scan).',
        functions=['Core._MetaAgent.__init__', 'Core._MetaAgent.add_class_component',
                   'Core._MetaAgent.remove_class_component', 'Core._MetaAgent.get_class_component',
                   'Core._MetaAgent.has_class_component', 'Core._MetaAgent.__getitem__', 'Core._MetaAgent.__len__',
                   'Core._MetaAgent.__contains__', 'Core._MetaAgent.tag@get', 'Core._MetaAgent.tag@set',
                   'Core._MetaAgent.components@get', 'Core.Agent.__init__', 'Core.Agent.add_component',
                   'Core.Agent.remove_component', 'Core.Environment.__init__'],
        assumptions=ENV_ASSUME),
})

SPACE_ASSUME = ENV_ASSUME + ['floats treated as reals (no rounding / overflow / NaN); float % is uninterpreted with the '
                             'assumed contract 0 <= a % b <= b for b > 0',
                             'extents are 0 or >= 1 (property text); world dimensions are not mutated after construction']

PROPS.update({
    'C08': dict(
        level_text='Deductive proof, once over the integers (grid worlds, offset 1) and once over the reals (continuous '
                   'worlds, offset 0): move lands exactly at (old + delta) % extent per positive axis when wrapping and at '
                   'max(min(old + delta, extent - offset), 0) otherwise; move_to / add_agent accept exactly the in-range '
                   'requests and store exactly the requested coordinates, rejections change nothing (whole-heap frame); '
                   'remove_agent drops the position; the containment invariant InWorld is preserved by all of them.',
        level_note='Floats as reals; float % assumed 0 <= r <= b; extents 0 or >= 1; heap typing; API-only writers.',
        functions=['Environments.SpaceWorld.__init__', 'Environments.PositionComponent.__init__',
                   'Environments.SpaceWorld.add_agent', 'Environments.SpaceWorld.remove_agent',
                   'Environments.SpaceWorld.move', 'Environments.SpaceWorld.move_to',
                   'Environments.DiscreteWorld.__init__', 'Environments.LineWorld.__init__',
                   'Environments.GridWorld.__init__'],
        assumptions=SPACE_ASSUME),
    'C12': dict(
        level_text='Deductive proof (integers and reals): get_agents_at returns a fresh list that is sound, complete and in '
                   'joining order for the filter |p - q| <= max(axis leeway, leeway) on every axis (closed bounds, any sign '
                   'of leeways, any query point) - the min/max interval identity is discharged inside the comprehension '
                   'law. Seam-aware behaviour in wrapping worlds is open finding F5.',
        level_note='Floats as reals (only +, -, comparisons, min, max are used); every resident has a position component.',
        functions=['Environments.SpaceWorld.get_agents_at'],
        assumptions=SPACE_ASSUME),
})

GRID_ASSUME = ['pandas: DataFrame({"pos": L}) copies L into column pos; df[c] = seq stores a copy (element i in row i); '
               'c in df is column membership; drop(columns=[c], inplace=True) removes only c; iloc[i] is row i with all '
               'columns', 'row-major law for an unfiltered nest of ranges (engine semantics)',
               'extents are non-negative integers; world dimensions are not mutated after construction']

PROPS.update({
    'C09': dict(
        level_text='Deductive proof: the id formula equals z*W*H + y*W + x with zero extents counted as 1 (nonlinear '
                   'lemmas: in range 0..cells-1 and injective on in-range coordinates, for all extents); the position '
                   'table built by the constructor holds (x, y, z) at id(x, y, z) (row-major law of the comprehension); '
                   'get_cell returns row id(x, y, z) for in-range coordinates and raises IndexError exactly for '
                   'coordinates outside the grid (argument order of the id call is part of the obligation).',
        level_note='Assumes the pandas contracts (column copy, iloc[i] = row i with all columns), engine row-major law.',
        functions=['Environments.discrete_grid_pos_to_id', 'Environments.DiscreteWorld.__init__',
                   'Environments.DiscreteWorld.get_cell', 'Environments.LineWorld.__init__',
                   'Environments.GridWorld.__init__'],
        assumptions=GRID_ASSUME),
})

PROPS.update({
    'C19': dict(
        level_text='Deductive proof over an instance-namespace model of TagLibrary (attribute read = instance __dict__ '
                   'first, class second; strings as uninterpreted ids, so *every* name is covered): the representation '
                   'invariant Tag_rep (names <-> ids bijection inside the dict, counter = number of tags, NONE = 0, no '
                   'library method shadowed) is established by the constructor and preserved by add_tag; add_tag assigns '
                   'the next unused id, rejects exactly the names it must and at most the names it may, rejected calls '
                   'change nothing; get_tag_name / itemize / len / module-level lookups are mutual inverses and the '
                   'module-level functions can always reach the methods (call-site obligation: not shadowed).',
        level_note='Assumes CPython attribute resolution order as modelled; hasattr(type(lib), n) true for class-body '
                   'names and object attributes, free otherwise; lookups by name on a *local* library are plain attribute '
                   'access (no function to verify).',
        functions=['Tags.TagLibrary.__init__', 'Tags.TagLibrary.add_tag', 'Tags.TagLibrary.get_tag_name',
                   'Tags.TagLibrary.__len__', 'Tags.TagLibrary.itemize', 'Tags.add_tag', 'Tags.get_tag_name',
                   'Tags.itemize', 'Tags.__getattr__'],
        assumptions=['CPython attribute resolution: instance __dict__ before class attributes for non-data descriptors',
                     'clients do not write the library internals (_tag_counter, _tag_names, __dict__) directly']),
})

PROPS.update({
    'C10': dict(
        level_text='Deductive proof for all extents, centres and radii >= 0: the triple scan of get_moore_neighbours / '
                   'get_neumann_neighbours is summarised by the lexicographic enumeration law; from it the coordinate form '
                   'is proved sound (in grid, Chebyshev resp. Manhattan distance <= radius, centre only when asked), '
                   'complete (every such cell is present - witness named by the law) and strictly ascending in cell '
                   'order; the id form holds the ids of exactly those cells (source witness), strictly ascending '
                   '(nonlinear monotonicity lemma) and complete; the generic entry point dispatches on the mode string; '
                   'centre normalisation from id / tuple / position component has its own contracts.',
        level_note='Centre given as coordinates in the scan contracts (other representations reduce to it through '
                   '_get_cell_pos_as_tuple); fractional position components are checked in the real-number mode of '
                   'that helper only; no wrapping; engine enumeration law.',
        functions=['Environments.discrete_grid_pos_to_id', 'Environments.DiscreteWorld.get_moore_neighbours#tuple',
                   'Environments.DiscreteWorld.get_neumann_neighbours#tuple',
                   'Environments.DiscreteWorld.get_moore_neighbours#int',
                   'Environments.DiscreteWorld.get_neumann_neighbours#int',
                   'Environments.DiscreteWorld._get_cell_pos_as_tuple#id',
                   'Environments.DiscreteWorld._get_cell_pos_as_tuple#tuple',
                   'Environments.DiscreteWorld._get_cell_pos_as_tuple#component',
                   'Environments.DiscreteWorld.get_neighbours'],
        assumptions=GRID_ASSUME + ['lexicographic enumeration law for accumulation loops (engine semantics)']),
})

PROPS.update({
    'C11': dict(
        level_text='Deductive proof over the assumed pandas / numpy contracts: add_cell_component dispatches on the source '
                   'kind (array -> np.copy, list, callable); the new column is a fresh list (independent of the '
                   "caller's array or list) with element i of a sequence, respectively generator(coordinates of cell i, "
                   'cells), at cell id i (comprehension map law + position table of C09); every other column and the '
                   'set of cells are unchanged (whole-view postcondition + frame); remove_cell_component drops exactly '
                   'that column and rejects unknown names with nothing changed; ConstantGenerator / LookupGenerator '
                   'return their value / table entry. Lookup tables of a line / 2-D world are open finding F4.',
        level_note='What is proved here is thin by nature: the column semantics (copy on assignment, element i in row i, '
                   'drop) are assumed pandas behaviour; user callables and table indexing are uninterpreted pure functions.',
        functions=['Environments.DiscreteWorld.add_cell_component', 'Environments.DiscreteWorld.remove_cell_component',
                   'Environments.ConstantGenerator.__call__', 'Environments.LookupGenerator.__call__',
                   'Environments.LookupGenerator.__call__#line', 'Environments.LookupGenerator.__call__#grid2d',
                   'Environments.DiscreteWorld.get_cell'],
        assumptions=GRID_ASSUME + ['user-supplied callables are pure functions of their arguments',
                                   'numpy.copy returns a fresh array with the same elements']),
})

BATCH_ASSUME = ['itertools.product(*lists): every index combination exactly once, lexicographic, first list slowest; '
                'dict(pairs) builds a new dictionary with exactly those keys (later pairs win)',
                'iter(x) raises TypeError at once iff x is not iterable; re-iterable collections yield the same items',
                'user model constructors / score functions / systems do not touch the parameter dictionaries',
                'multiprocessing.Pool.imap yields f(x) for every x in order; imap_unordered yields each exactly once in '
                'some order; a worker exception is re-raised at the iterator (assumed, no schedule is explored)']

PROPS.update({
    'C14': dict(
        level_text='Deductive proof: the constructor keeps names, values and order; add / remove are whole-view '
                   'dictionary updates; non-string, duplicate and unknown names are rejected with nothing changed; '
                   'build() makes one (name, value) list per parameter in declaration order (loop invariant: strings and '
                   'non-iterables wrapped, collections expanded item by item) and hands them in that order to '
                   'itertools.product; every resulting dictionary has exactly the declared names, each bound to the single '
                   'value itself or to an item of that parameter\'s collection; one combination for no parameters, none '
                   'with an empty collection; the declaration is untouched (frame), so building is repeatable. That every '
                   'index combination occurs exactly once with the first-declared parameter slowest is the assumed '
                   'contract of itertools.product (exercised against an independent product oracle by the native layer).',
        level_note='itertools.product, dict(pairs) and the iterator protocol are assumed contracts; dictionaries of '
                   'build() are abstract records (independence = freshness of dict(), assumed).',
        functions=['Batching.ParameterList.__init__#empty', 'Batching.ParameterList.__init__#dict',
                   'Batching.ParameterList.add_parameter', 'Batching.ParameterList.add_parameter#nonstr',
                   'Batching.ParameterList.remove_parameter', 'Batching.ParameterList.build'],
        assumptions=BATCH_ASSUME),
    'C16': dict(
        level_text='Deductive proof (scores as reals): _score_model_for_search maps every mode to its aggregate; in '
                   'grid_search (serial path) the collection loop keeps one result dictionary per combination in product '
                   'order, and the selection loop invariant shows that the returned combination is the first whose '
                   'aggregate is the minimum (even modes) / maximum (odd modes) over all combinations, each carrying the '
                   'aggregate of its own scores.',
        level_note='Aggregates (min, max, mean, sum, variance) are uninterpreted library functions - only the dispatch is '
                   'verified; the model runs inside _run_model_for_search are user code (abstract contract: the same '
                   'parameter dictionary comes back with the scores added); the parallel path rests on the assumed '
                   'ordered Pool.imap and is exercised natively only; non-empty grid.',
        functions=['Batching._score_model_for_search', 'Batching.grid_search'],
        assumptions=BATCH_ASSUME + ['floats treated as reals (total order on finite floats is exact)']),
})

PROPS.update({
    'C17': dict(
        level_text='Deductive proof: AgentCollector.collect builds a fresh dictionary holding exactly the non-empty '
                   'per-agent results of the agents then in the environment (loop invariant over the agents dict), plus '
                   'timestep / composite data when configured, appends it only when non-empty, and leaves every earlier '
                   'record and dictionary untouched (frame over the whole dict store). FileCollector (append mode, '
                   'clear on write): the invariant "text written ++ records held == everything collected, 0 <= last_write '
                   '<= write_count" is preserved by execute() on both branches, the flush happens exactly when the '
                   '(write_count + 1)-th collection since the last flush arrives, and write_records writes all held '
                   'records in order (loop invariant over an abstract append-only file).',
        level_note='Files are modelled as the list of records appended to them (no durability, no mid-write crash); user '
                   'collect() / agent / composite functions are assumed pure appenders; reserved record keys must not '
                   'collide with agent ids (stated precondition N3); the collector observes the state left by the '
                   "timestep's systems because its default priority -1 is below the default 0 (C01).",
        functions=['Collectors.Collector.__init__', 'Collectors.AgentCollector.__init__',
                   'Collectors.AgentCollector.collect',
                   'Collectors.FileCollector.__init__', 'Collectors.FileCollector.execute',
                   'Collectors.FileCollector.write_records'],
        assumptions=['agentFunc / compositeFunc are pure functions of their argument',
                     'Collector.collect (user code) only appends records to self.records',
                     'open / write / close: append-only file text (no durability or crash model)']),
})

PROPS.update({
    'C18': dict(
        level_text='Deductive proof with a ghost lifecycle monitor: every lifecycle call of Decoder.decode (11 call sites: '
                   'hooks, decode classmethods, add_system, add_agent) carries a call-site assertion over the decoder '
                   'state and ghost counters - hook present iff its key is present and called before / after its item, '
                   'model built after the pre-model hook and before everything else, all systems decoded and registered '
                   '(the very object just created) before any agent, agents created one by one with agent_index = 0 .. '
                   'n-1 and each added before the next, every system / agent / item-level hook receives the decoded '
                   'model - and loop invariants over systems, groups and agents carry the counters; the exit state shows '
                   'every listed item processed exactly once. Name resolution is proved to use the named module.',
        level_note='The description is an opaque value (uninterpreted reads; item assignments through a ghost overlay: '
                   'assumes the description is a tree and well-formed); hooks and decode classmethods are user code '
                   'assumed not to mutate the description; add_system / add_agent are events here (their own contracts '
                   'are C01 / C04); call sites are keyed by source-order ordinal.',
        functions=['Decode.Decoder.decode', 'Decode.Decoder.str_to_class', 'Decode.Decoder.str_to_func',
                   'Decode.Decoder.get_module_name', 'Decode.JsonDecoder.open_file'],
        assumptions=['the decoded description is well-formed (required keys present) and tree-shaped',
                     'hooks and decode classmethods do not mutate the description',
                     'getattr(sys.modules[m], n, None) is a function of (m, n)']),
})

PROPS.update({
    'C15': dict(
        level_text='Deductive proof of the sequential code with a ghost execution log: _run_model_for_batch builds exactly '
                   'one model (from the run\'s own arguments), calls model.execute() only while the model is running and '
                   'below the step limit (call-site assertion), and returns that model\'s own collector records (or None); '
                   'batch_run executes build() x repetitions, one log entry per execution in product x repetition order, '
                   'keeps exactly one result per execution (loop invariant), lets an exception of any execution propagate '
                   '(no handler on the path), and in the parallel branch hands the same list to imap_unordered, whose '
                   'assumed contract (each input once, some order) yields one result per execution.',
        level_note='No schedule is explored: "whatever the number of processes or their scheduling" rests entirely on the '
                   'assumed Pool contract; user model constructors are assumed to build well-formed models; several '
                   'collector names (dict comprehension) and non-ParameterList parameters are exercised natively only; '
                   'termination of the run loop is not proved.',
        functions=['Batching._run_model_for_batch#nocollector', 'Batching._run_model_for_batch#collector',
                   'Batching.batch_run'],
        assumptions=BATCH_ASSUME + ['model_cls(**kwargs) returns a well-formed Model (scheduler invariant of C01/C02)']),
})

WRITERS = {
    '_status': ['Core.Model.__init__', 'Core.Model.complete'],
    'timestep': ['Core.SystemManager.__init__', 'Core.SystemManager.execute_systems'],
    'execution_queue': ['Core.SystemManager.__init__', 'Core.SystemManager.add_system', 'Core.SystemManager.remove_system'],
    'systems': ['Core.Model.__init__', 'Core.SystemManager.__init__', 'Core.SystemManager.add_system',
                'Core.SystemManager.remove_system'],
    'component_pools': ['Core.SystemManager.__init__', 'Core.SystemManager.register_component',
                        'Core.SystemManager.deregister_component'],
    'agents': ['Core.Environment.__init__', 'Core.Environment.add_agent', 'Core.Environment.remove_agent'],
    'components': ['Core.Agent.__init__', 'Core.Agent.add_component', 'Core.Agent.remove_component'],
    '_components': ['Core._MetaAgent.__init__', 'Core._MetaAgent.add_class_component',
                    'Core._MetaAgent.remove_class_component'],
    '_tag': ['Core._MetaAgent.__init__', 'Core._MetaAgent.tag'],
    'random': ['Core.Model.__init__'],
    'environment': ['Core.Model.__init__', 'Core.Model.set_environment'],
    '_tag_counter': ['Tags.TagLibrary.__init__', 'Tags.TagLibrary.add_tag'],
    '_tag_names': ['Tags.TagLibrary.__init__', 'Tags.TagLibrary.add_tag'],
    '_parameters': ['Batching.ParameterList.__init__', 'Batching.ParameterList.add_parameter',
                    'Batching.ParameterList.remove_parameter'],
    'records': ['Collectors.Collector.__init__', 'Collectors.AgentCollector.collect', 'Collectors.FileCollector.execute'],
    'last_write': ['Collectors.FileCollector.__init__', 'Collectors.FileCollector.execute'],
    'cells': ['Environments.DiscreteWorld.__init__', 'Environments.DiscreteWorld.add_cell_component',
              'Environments.DiscreteWorld.remove_cell_component'],
}

PROPS.update({
    'C07': dict(
        level_text='Deductive proof of the effect contracts that make a trajectory a function of (seed, model code): '
                   'Model.__init__ creates a fresh generator seeded with exactly the given seed; get_random_agent and '
                   'shuffle draw only from self.model.random (receiver obligation on every generator call of the path) '
                   'and only on the exact, insertion-ordered filter list proved under C13; a package-wide scan over every '
                   'function shows that no ambient source is read (global random / numpy.random, unseeded generators, '
                   'set / hash / id order, time, environment) and that model.random has a single writer. Trajectory '
                   'equality itself follows by induction over steps under the stated assumptions - no second run is '
                   'executed by the proof (a differential native run is part of the run-time layer).',
        level_note='Assumed, not proved: random.Random is a deterministic function of seed and call history and '
                   'independent of the global generator; dict / list iteration order (engine semantics); user systems are '
                   'themselves deterministic; seed=None is excluded (OS entropy).',
        functions=['Core.Model.__init__', 'Core.Environment.get_random_agent', 'Core.Environment.shuffle',
                   'Core.Environment.get_agents'],
        scans=[dict(kind='reads'), dict(kind='shared-state'), dict(kind='writers', table={'random': WRITERS['random']})],
        assumptions=ENV_ASSUME + ['random.Random: deterministic function of seed and call history, independent of the '
                                  'global generator', 'user systems / agents are deterministic given the model generator']),
})
for _cid, _fields in dict(C06=['_status', 'timestep'], C01=['execution_queue', 'systems'], C03=['component_pools'],
                          C04=['agents'], C20=['_components', '_tag'], C19=['_tag_counter', '_tag_names'],
                          C14=['_parameters'], C17=['records', 'last_write'], C09=['cells']).items():
    PROPS[_cid].setdefault('scans', []).append(dict(kind='writers', table={f: WRITERS[f] for f in _fields}))

# defaults the property statements rely on: (function, parameter) -> (source text of the default, properties)
DEFAULTS = {
    ('Core.System.__init__', 'priority'): ('0', ['C01', 'C17']),
    ('Core.System.__init__', 'frequency'): ('1', ['C02']),
    ('Core.System.__init__', 'start'): ('0', ['C02']),
    ('Core.System.__init__', 'end'): ('maxsize', ['C02']),
    ('Collectors.Collector.__init__', 'priority'): ('-1', ['C01', 'C17']),
    ('Collectors.AgentCollector.__init__', 'priority'): ('-1', ['C01', 'C17']),
    ('Collectors.FileCollector.__init__', 'priority'): ('-1', ['C01', 'C17']),
    ('Collectors.FileCollector.__init__', 'filemode'): ("'a'", ['C17']),
    ('Collectors.FileCollector.__init__', 'write_count'): ('0', ['C17']),
    ('Collectors.FileCollector.__init__', 'clear_records_on_write'): ('True', ['C17']),
    ('Core.Model.execute', 'n'): ('1', ['C02']),
    ('Core.SystemManager.execute_systems', 'throw_error'): ('False', ['C06']),
    ('Core.Environment.get_agents', 'tag'): ('None', ['C13']),
    ('Core.Environment.get_random_agent', 'tag'): ('None', ['C13']),
    ('Core.Environment.shuffle', 'tag'): ('None', ['C13']),
    ('Core.Agent.__init__', 'tag'): ('None', ['C20']),
    ('Core.Environment.get_agent', 'throw_error'): ('False', ['C04']),
    ('Batching.batch_run', 'processes'): ('1', ['C15']),
    ('Batching.batch_run', 'repetitions'): ('1', ['C15']),
    ('Batching.batch_run', 'max_timesteps'): ('maxsize', ['C15']),
    ('Batching.grid_search', 'mode'): ('ScoreMode.MIN', ['C16']),
    ('Environments.SpaceWorld.__init__', 'wrap_env'): ('False', ['C08']),
    ('Environments.DiscreteWorld.get_moore_neighbours', 'incl_center'): ('False', ['C10']),
    ('Environments.DiscreteWorld.get_neumann_neighbours', 'incl_center'): ('False', ['C10']),
    ('Environments.DiscreteWorld.get_neighbours', 'mode'): ("'moore'", ['C10']),
}
for _cid in PROPS:
    PROPS[_cid].setdefault('scans', []).append(dict(kind='structure'))
    PROPS[_cid]['scans'].append(dict(kind='interface'))
    if any(_cid in v[1] for v in DEFAULTS.values()):
        PROPS[_cid]['scans'].append(dict(kind='defaults', table=DEFAULTS))

# Dependencies: functions whose contracts a property's proof uses as hypotheses at call sites although the property
# states nothing about them.  They are verified by the same check with their whole contract (every tag counts),
# so a change inside one of them is noticed by every property that leans on it (pyvc/cli.py refuses a plan whose
# call-site hypotheses are not closed under this relation).
SCHED = ['Core.SystemManager.__init__', 'Core.SystemManager.add_system', 'Core.SystemManager.remove_system',
         'Core.System.__init__', 'Core.System.clean_up']
ENVW = ['Core.Environment.__init__', 'Core.Environment.add_agent', 'Core.Environment.remove_agent',
        'Core.SystemManager.register_component', 'Core.SystemManager.deregister_component',
        'Core.Agent.__init__', 'Core.Agent.add_component', 'Core.Agent.remove_component']
SPACEW = ['Environments.SpaceWorld.__init__', 'Environments.SpaceWorld.add_agent', 'Environments.SpaceWorld.remove_agent',
          'Environments.SpaceWorld.move', 'Environments.SpaceWorld.move_to', 'Environments.PositionComponent.__init__',
          'Core.Agent.has_component']
GRIDW = ['Environments.discrete_grid_pos_to_id', 'Environments.DiscreteWorld.__init__', 'Environments.LineWorld.__init__',
         'Environments.GridWorld.__init__', 'Environments.DiscreteWorld.add_cell_component',
         'Environments.DiscreteWorld.remove_cell_component', 'Environments.ConstantGenerator.__call__',
         'Environments.LookupGenerator.__call__', 'Core.Environment.__init__']
PLIST = ['Batching.ParameterList.__init__#empty', 'Batching.ParameterList.__init__#dict', 'Batching.ParameterList.add_parameter',
         'Batching.ParameterList.remove_parameter', 'Batching.ParameterList.build']
# A property also leans on the representation invariants its functions *require* (SM_rep, Env_rep / PoolsMirror, InWorld,
# Grid_rep): every function that re-establishes such an invariant is verified by the same check (SCHED / ENVW / SPACEW /
# GRIDW below), otherwise a writer that breaks the invariant would only be reported under the property that owns it.
DEPS = {
    # collectors are systems: their constructors must hand the declared window on to System.__init__; "exactly once" must
    # survive systems that edit the system set mid-timestep (the general user-code view)
    # the order must also hold when systems edit the system set mid-timestep (dynamic view)
    # ... and collectors queue by the priority their constructors hand on (default -1: after the default systems)
    'C01': ['Core.System.clean_up', 'Core.SystemManager.execute_systems#dynamic', 'Collectors.Collector.__init__',
            'Collectors.AgentCollector.__init__', 'Collectors.FileCollector.__init__'],
    'C02': SCHED + ['Core.Environment.__init__', 'Collectors.Collector.__init__', 'Collectors.AgentCollector.__init__',
                    'Collectors.FileCollector.__init__', 'Core.SystemManager.execute_systems#dynamic'],
    # "listing" (get_agents) agrees with lookup, length and iteration: its filter goes through has_component
    'C04': ['Core.SystemManager.register_component', 'Core.SystemManager.deregister_component',
            'Core.Agent.add_component', 'Core.Agent.remove_component', 'Core.Agent.has_component'],
    'C05': SCHED,
    'C06': SCHED + ['Core.Environment.__init__'],
    'C07': ENVW + ['Core.SystemManager.__init__', 'Core.Agent.has_component', 'Core.Environment.get_agents',
                   'Batching._build_model_from_kwargs#impl'],
    'C08': ENVW + ['Core.Agent.has_component'],
    'C09': GRIDW,
    'C10': GRIDW,
    'C11': GRIDW,
    'C12': ENVW + SPACEW,
    'C13': ENVW,
    'C15': ['Core.Model.execute', 'Core.SystemManager.execute_systems', 'Core.SystemManager.__getitem__',
            'Batching._build_model_from_kwargs#impl'] + PLIST,
    'C16': ['Batching._build_model_from_kwargs#impl', 'Batching._run_model_for_search#body',
            'Core.Model.execute', 'Core.SystemManager.execute_systems'] + PLIST,
    # collectors observe the state left by the timestep's systems: that is the scheduler's order (C01) and, for systems
    # that edit the system set, its dynamic view (C05)
    'C17': SCHED + ['Core.SystemManager.execute_systems', 'Core.SystemManager.execute_systems#dynamic'],
    # decode treats registration / joining as lifecycle events (abstract view); that the decoded model then *contains*
    # the listed systems with their declared scheduling, and the agents, is the contract of these functions
    'C18': SCHED + ['Core.Environment.add_agent', 'Core.SystemManager.register_component'],
}
for _cid, _d in DEPS.items():
    PROPS[_cid]['deps'] = _d

NOT_APPLICABLE = {}
