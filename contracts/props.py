"""Per-property check plans: which contracted functions, lemmas and scans decide each property."""

SCHED_ASSUME = ['System.execute is user code: assumed frame (may complete the model and edit agents/components; '
                'does not write timestep, the system set, or scheduling fields; never un-completes)',
                'clients use the public API only (no direct writes to execution_queue / systems / timestep)',
                'ids, priorities and windows of registered systems are not mutated after registration']

PROPS = {
    'C01': dict(
        level_text='Deductive proof, for all integer priorities and all reachable scheduler states: the queue '
                   'representation invariant (priority descending, registration order among equals, queue = registry) is '
                   'established by the constructor and preserved by add_system/remove_system (whole-view postconditions, '
                   'rejected calls change nothing), and a ghost order monitor at the sys.execute() call site proves that '
                   'execute_systems runs systems in that order. All histories follow by invariant induction.',
        level_note='Assumes the user-code contract of System.execute (static view; mid-step edits are C05), client '
                   'discipline (API is the only writer), engine semantics of Python lists/dicts, z3/cvc5.',
        functions=['Core.SystemManager.__init__', 'Core.SystemManager.add_system', 'Core.SystemManager.remove_system',
                   'Core.SystemManager.execute_systems', 'Core.System.__init__'],
        assumptions=SCHED_ASSUME),
    'C02': dict(
        level_text='Deductive proof for all integer start/end/frequency>=1/timestep: the code predicate '
                   '(start - t) % f == 0 is proved equivalent to the stated (t - start) % f == 0 inside the loop '
                   'invariant of execute_systems; ghost run counters prove exactly-once / not-at-all; timestep+1 per '
                   'running step; Model.execute(n) = n steps (loop invariant), rejects non-int / non-positive n.',
        level_note='Assumes System.execute user-code contract, frequency >= 1, engine semantics of Python int %, z3/cvc5. '
                   'bool arguments to Model.execute are left open (property says non-integer).',
        functions=['Core.SystemManager.__init__', 'Core.SystemManager.execute_systems', 'Core.System.__init__',
                   'Core.SystemManager.add_system', 'Core.SystemManager.remove_system', 'Core.Model.__init__', 'Core.Model.execute', 'Core.Model.execute#nonint', 'Core.Model.__getattr__'],
        assumptions=SCHED_ASSUME + ['frequency >= 1 for every registered system (property text)']),
    'C06': dict(
        level_text='Deductive proof: a ghost monitor asserts the model is running at every sys.execute() call site; '
                   'a non-running model makes execute_systems return with nothing changed (or raise ModelCompleteError '
                   'iff asked); complete() sets COMPLETE, is_running/__bool__ read it; finality is a frame fact '
                   '(writer scan: only Model.__init__ and complete write _status).',
        level_note='Assumes System.execute only moves status RUNNING->COMPLETE; client discipline; engine semantics.',
        functions=['Core.Model.__init__', 'Core.Model.complete', 'Core.Model.is_running', 'Core.Model.__bool__',
                   'Core.SystemManager.execute_systems', 'Core.Model.execute', 'Core.SystemManager.add_system',
                   'Core.SystemManager.remove_system'],
        assumptions=SCHED_ASSUME),
}

NOT_APPLICABLE = {}
