"""Checked contracts for ECAgent/Decode.py (C18): lifecycle monitor at the call sites of Decoder.decode.

The description is an opaque value (reads through the uninterpreted item_of / rec_has, item assignments through a
ghost overlay); every lifecycle call (hook, decode classmethod, add_system, add_agent) is a call site with an
assertion over the decoder's locals and ghost counters, followed by a ghost effect (pyvc/hooks.py: ev_*).
Call sites are identified by their source-order ordinal inside Decoder.decode."""
import sys
from pyvc.specs import contract, fields_of, lemma, implies, iff, index_of, is_fresh, typeof, is_none, same, REG, \
    rec_has, items_of, ghost, desc_writes_ok, json_content

for _n, _t in dict(pre_model_done='bool', model_done='bool', post_model_done='bool', n_sys_decoded='int',
                   n_sys_added='int', n_agents_decoded='int', n_agents_added='int', last_obj='any',
                   sys_pre_done='map[bool]', sys_post_done='map[bool]', grp_pre_done='map[bool]',
                   grp_post_done='map[bool]').items():
    REG.ghosts[_n] = _t


# ------------------------------------------------------------------------------------------------ name resolution
def resolve_post(class_name, module_name, result):
    """The name is resolved in exactly the named module (no caching across modules)."""
    return same(result, resolved(module_name, class_name))


def resolved(module_name, name):
    return getattr(sys.modules[module_name], name, None)


contract('Decode.Decoder.str_to_class', params={'class_name': 'str', 'module_name': 'str'}, returns='any',
         ensures={'C18': [resolve_post]}, use='inline', native=False, props=['C18'])


def resolve_func_post(func_name, module_name, result):
    return same(result, resolved(module_name, func_name))


contract('Decode.Decoder.str_to_func', params={'func_name': 'str', 'module_name': 'str'}, returns='any',
         ensures={'C18': [resolve_func_post]}, use='inline', native=False, props=['C18'])


def module_name_post(d, false_return, result):
    return same(result, d['module'] if 'module' in d else false_return)


contract('Decode.Decoder.get_module_name', params={'d': 'any', 'false_return': 'str'}, returns='any',
         ensures={'C18': [module_name_post]}, use='inline', native=False, props=['C18'])


# ------------------------------------------------------------------------------------------------ lifecycle sites
def S_of(data):
    return items_of(data['systems'])


def G_of(data):
    return items_of(data['agents'])


def site_pre_model(data, arg):
    return ('pre_model_decode' in data and not ghost().pre_model_done and not ghost().model_done
            and same(arg, data['pre_model_decode']['params']))


def site_model(data, arg):
    return (not ghost().model_done and ghost().pre_model_done == ('pre_model_decode' in data)
            and same(arg, data['model']['params']))


def systems_open(data, generatedModel, si):
    """Inside the systems phase: model built, systems 0..si-1 completely processed, no agent touched yet."""
    return (ghost().model_done and not ghost().post_model_done and ghost().n_agents_decoded == 0
            and ghost().n_agents_added == 0)


def site_pre_sys(data, generatedModel, systemDict, si, arg):
    return (systems_open(data, generatedModel, si) and 'pre_system_init' in systemDict
            and ghost().n_sys_decoded == si and ghost().n_sys_added == si and not ghost().sys_pre_done[si]
            and same(arg, systemDict['pre_system_init']['params']) and same(arg['model'], generatedModel))


def site_sys_decode(data, generatedModel, systemDict, si, arg):
    return (systems_open(data, generatedModel, si) and ghost().n_sys_decoded == si and ghost().n_sys_added == si
            and ghost().sys_pre_done[si] == ('pre_system_init' in systemDict) and not ghost().sys_post_done[si]
            and same(arg, systemDict['params']) and same(arg['model'], generatedModel))


def site_add_system(data, generatedModel, systemDict, si, arg):
    return (ghost().n_sys_decoded == si + 1 and ghost().n_sys_added == si and same(arg, ghost().last_obj)
            and not ghost().sys_post_done[si])


def site_post_sys(data, generatedModel, systemDict, si, arg):
    return ('post_system_init' in systemDict and ghost().n_sys_added == si + 1 and ghost().n_sys_decoded == si + 1
            and not ghost().sys_post_done[si]
            and same(arg, systemDict['post_system_init']['params']) and same(arg['model'], generatedModel))


def agents_open(data):
    return (ghost().model_done and not ghost().post_model_done and ghost().n_sys_decoded == len(S_of(data))
            and ghost().n_sys_added == len(S_of(data)))


def site_pre_agent(data, generatedModel, agentDict, gi, arg):
    return (agents_open(data) and 'pre_agent_init' in agentDict and not ghost().grp_pre_done[gi]
            and ghost().n_agents_decoded == ghost().n_agents_added
            and same(arg, agentDict['pre_agent_init']['params']) and same(arg['model'], generatedModel))


def site_agent_decode(data, generatedModel, agentDict, gi, i, arg):
    return (agents_open(data) and ghost().grp_pre_done[gi] == ('pre_agent_init' in agentDict)
            and not ghost().grp_post_done[gi] and ghost().n_agents_decoded == ghost().n_agents_added
            and same(arg, agentDict['params']) and same(arg['model'], generatedModel) and arg['agent_index'] == i)


def site_add_agent(data, generatedModel, agentDict, gi, i, arg):
    return (ghost().n_agents_decoded == ghost().n_agents_added + 1 and same(arg, ghost().last_obj)
            and not ghost().grp_post_done[gi])


def site_post_agent(data, generatedModel, agentDict, gi, arg):
    return (agents_open(data) and 'post_agent_init' in agentDict and not ghost().grp_post_done[gi]
            and ghost().grp_pre_done[gi] == ('pre_agent_init' in agentDict)
            and ghost().n_agents_decoded == ghost().n_agents_added
            and same(arg, agentDict['post_agent_init']['params']) and same(arg['model'], generatedModel))


def site_post_model(data, generatedModel, gi, arg):
    return ('post_model_decode' in data and agents_open(data) and gi == len(G_of(data))
            and ghost().n_agents_decoded == ghost().n_agents_added
            and same(arg, data['post_model_decode']['params']))


# ------------------------------------------------------------------------------------------------ loop invariants
def systems_inv(data, generatedModel, si):
    S = S_of(data)
    return (0 <= si and si <= len(S) and desc_writes_ok() and systems_open(data, generatedModel, si)
            and ghost().pre_model_done == ('pre_model_decode' in data)
            and ghost().n_sys_decoded == si and ghost().n_sys_added == si
            and all(ghost().sys_pre_done[k] == ('pre_system_init' in S[k])
                    and ghost().sys_post_done[k] == ('post_system_init' in S[k]) for k in range(0, si))
            and all(not ghost().sys_pre_done[k] and not ghost().sys_post_done[k] for k in range(si, len(S)))
            and all(not ghost().grp_pre_done[k] and not ghost().grp_post_done[k] for k in range(0, len(G_of(data)))))


def groups_inv(data, generatedModel, gi):
    G = G_of(data)
    S = S_of(data)
    return (0 <= gi and gi <= len(G) and desc_writes_ok() and agents_open(data)
            and ghost().pre_model_done == ('pre_model_decode' in data)
            and ghost().n_agents_decoded == ghost().n_agents_added
            and all(ghost().sys_pre_done[k] == ('pre_system_init' in S[k])
                    and ghost().sys_post_done[k] == ('post_system_init' in S[k]) for k in range(0, len(S)))
            and all(ghost().grp_pre_done[k] == ('pre_agent_init' in G[k])
                    and ghost().grp_post_done[k] == ('post_agent_init' in G[k]) for k in range(0, gi))
            and all(not ghost().grp_pre_done[k] and not ghost().grp_post_done[k] for k in range(gi, len(G))))


def agents_inv(data, generatedModel, agentDict, gi, i, entry):
    """Exactly i agents of this group created and added so far, with indices 0 .. i-1 (index asserted at the site)."""
    G = G_of(data)
    return (0 <= i and desc_writes_ok() and agents_open(data) and same(agentDict['params']['model'], generatedModel)
            and ghost().n_agents_decoded == entry.ghost.n_agents_decoded + i
            and ghost().n_agents_added == ghost().n_agents_decoded
            and ghost().grp_pre_done[gi] == ('pre_agent_init' in agentDict) and not ghost().grp_post_done[gi]
            and ghost().pre_model_done == entry.ghost.pre_model_done
            and all(ghost().grp_pre_done[k] == entry.ghost.grp_pre_done[k]
                    and ghost().grp_post_done[k] == entry.ghost.grp_post_done[k] for k in range(0, len(G)))
            and all(ghost().sys_pre_done[k] == entry.ghost.sys_pre_done[k]
                    and ghost().sys_post_done[k] == entry.ghost.sys_post_done[k] for k in range(0, len(S_of(data)))))


def decode_post(self, file_path, result, data, generatedModel):
    """The whole lifecycle ran: every listed system created and registered, every optional hook called iff present
    (and before / after its item, by the site assertions), the decoded model is returned."""
    S = S_of(data)
    G = G_of(data)
    return (same(result, generatedModel) and ghost().model_done
            and ghost().pre_model_done == ('pre_model_decode' in data)
            and ghost().post_model_done == ('post_model_decode' in data)
            and ghost().n_sys_decoded == len(S) and ghost().n_sys_added == len(S)
            and ghost().n_agents_decoded == ghost().n_agents_added
            and all(ghost().sys_pre_done[k] == ('pre_system_init' in S[k])
                    and ghost().sys_post_done[k] == ('post_system_init' in S[k]) for k in range(0, len(S)))
            and all(ghost().grp_pre_done[k] == ('pre_agent_init' in G[k])
                    and ghost().grp_post_done[k] == ('post_agent_init' in G[k]) for k in range(0, len(G))))


LIFECYCLE_GHOSTS = ['ghost:' + n for n in ('pre_model_done', 'model_done', 'post_model_done', 'n_sys_decoded',
                                            'n_sys_added', 'n_agents_decoded', 'n_agents_added', 'last_obj',
                                            'sys_pre_done', 'sys_post_done', 'grp_pre_done', 'grp_post_done',
                                            '$ov_has', '$ov_val')]

def json_open_post(self, file_name, result):
    """The JSON decoder hands decode() exactly the parsed content of the file: nothing filtered, nothing added."""
    return result is json_content(file_name)


contract('Decode.JsonDecoder.open_file', params={'self': 'ref:JsonDecoder', 'file_name': 'str'}, returns='any',
         ensures={'C18': [json_open_post]}, modifies=['new:obj:File'], native=False, props=['C18'])
contract('Decode.Decoder.open_file', params={'self': 'ref:Decoder', 'file_name': 'str'}, returns='any',
         kind='abstract', assumes=['open_file (overridden by concrete decoders) returns the description or None'])
contract('Core.SystemManager.add_system', variant='decode',
         params={'self': 'ref:SystemManager', 's': 'ref:System'}, kind='abstract',
         raises={'KeyError': dict(when=None)},
         assumes=['in the decode view add_system / add_agent are lifecycle events; their own contracts are C01 / C04'])
contract('Core.Environment.add_agent', variant='decode',
         params={'self': 'ref:Environment', 'agent': 'ref:Agent'}, kind='abstract',
         raises={'DuplicateAgentError': dict(when=None)})

contract('Decode.Decoder.decode',
         params={'self': 'ref:Decoder', 'file_path': 'str'}, returns='ref:Model',
         ensures={'C18': [decode_post]},
         raises={'Exception': dict(when=None), 'TypeError': dict(when=None), 'KeyError': dict(when=None),
                 'DuplicateAgentError': dict(when=None)},
         modifies=LIFECYCLE_GHOSTS,
         locals={'generatedModel': 'ref:Model'},
         ghost_init='decode_init', view='decode',
         sites={4: dict(**{'assert': [site_pre_model]}, effect='ev_pre_model'),
                5: dict(**{'assert': [site_model]}, effect='ev_model'),
                10: dict(**{'assert': [site_pre_sys]}, effect='ev_sys_pre'),
                12: dict(**{'assert': [site_sys_decode]}, effect='ev_sys_decoded'),
                11: dict(**{'assert': [site_add_system]}, effect='ev_sys_added'),
                17: dict(**{'assert': [site_post_sys]}, effect='ev_sys_post'),
                20: dict(**{'assert': [site_pre_agent]}, effect='ev_grp_pre'),
                23: dict(**{'assert': [site_agent_decode]}, effect='ev_agent_decoded'),
                22: dict(**{'assert': [site_add_agent]}, effect='ev_agent_added'),
                28: dict(**{'assert': [site_post_agent]}, effect='ev_grp_post'),
                31: dict(**{'assert': [site_post_model]}, effect='ev_post_model')},
         loops={0: dict(invariant=[(systems_inv, ['C18'])], index='si', modifies=LIFECYCLE_GHOSTS),
                1: dict(invariant=[(groups_inv, ['C18'])], index='gi', modifies=LIFECYCLE_GHOSTS),
                2: dict(invariant=[(agents_inv, ['C18'])], index='i', modifies=LIFECYCLE_GHOSTS)},
         # the site contracts above are keyed by source-order call ordinal: they apply to this call skeleton only. A body
         # with another skeleton (calls added, removed, moved into a helper) is outside what this contract can read:
         # the function is then reported as unsupported (native layer decides / DEGRADED), never mis-read.
         skeleton=['open_file', 'Exception', 'str_to_func', 'get_module_name', 'func', 'decode', 'str_to_class',
                   'get_module_name', 'str_to_func', 'get_module_name', 'func', 'add_system', 'decode', 'str_to_class',
                   'get_module_name', 'str_to_func', 'get_module_name', 'func', 'str_to_func', 'get_module_name', 'func',
                   'range', 'add_agent', 'decode', 'str_to_class', 'get_module_name', 'str_to_func', 'get_module_name',
                   'func', 'str_to_func', 'get_module_name', 'func'],
         native=False, props=['C18'])
