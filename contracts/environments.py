"""Checked contracts for ECAgent/Environments.py."""
from pyvc.specs import contract, fields_of, lemma, implies, iff, index_of, order_of, key_at, is_fresh, \
    same_elems, same_dict, typeof, is_none, same, same_obj, REG
from contracts.core import (Env_rep, env_linked, env_mirror, joiner_ok, Agent_rep, dict_added, dict_removed,
                            env_add_post, env_add_pools, env_add_dup, env_remove_post, env_remove_pools,
                            env_remove_unknown, PoolsMirror, pool_ext, pool_same, pool_cut)

fields_of('PositionComponent', x='num', y='num', z='num')
fields_of('SpaceWorld', width='num', height='num', depth='num', wrap_env='bool', _index_offset='int')
fields_of('DiscreteWorld', cells='ref:DataFrame')
fields_of('ConstantGenerator', value='any')
fields_of('LookupGenerator', table='any')

REG.frame_tags.update({'width': ['C08'], 'height': ['C08'], 'depth': ['C08'], 'wrap_env': ['C08'],
                       '_index_offset': ['C08'], 'cells': ['C09', 'C11'], 'agent': ['C03'], 'model': ['C03']})


# ------------------------------------------------------------------------------------------------ world kinds
def grid_world(self):
    """Grid worlds: integer extents (0 or >= 1), positions indexed 0 .. extent-1."""
    return self._index_offset == 1 and self.width >= 0 and self.height >= 0 and self.depth >= 0


def cont_world(self):
    """Continuous worlds: extents 0 or >= 1, positions 0 .. extent."""
    return (self._index_offset == 0 and (self.width == 0 or self.width >= 1)
            and (self.height == 0 or self.height >= 1) and (self.depth == 0 or self.depth >= 1))


WORLD_CASES = [dict(name='grid', mode='int', when=grid_world), dict(name='continuous', mode='real', when=cont_world)]


def cont_world_any(self):
    """Continuous worlds with any non-negative extents (also fractional ones below 1): placement and leaving (C04)
    are not restricted to the extents C08 quantifies over."""
    return self._index_offset == 0 and self.width >= 0 and self.height >= 0 and self.depth >= 0


PLACE_CASES = [dict(name='grid', mode='int', when=grid_world), dict(name='continuous', mode='real', when=cont_world_any)]


def pos_of(a):
    return a.components[PositionComponent]


def axis_ok(p, extent, off):
    return extent <= 0 or (0 <= p and p <= extent - off)


def InWorld(self):
    """Every resident has a position component inside the world on every axis of positive extent."""
    A = self.agents
    return all(PositionComponent in A[k].components
               and axis_ok(pos_of(A[k]).x, self.width, self._index_offset)
               and axis_ok(pos_of(A[k]).y, self.height, self._index_offset)
               and axis_ok(pos_of(A[k]).z, self.depth, self._index_offset) for k in A)


def no_position_pool(self):
    """A spatial world manages the position component itself: it is never listed with the scheduler."""
    return PositionComponent not in self.model.systems.component_pools


def has_position(self, agent):
    return PositionComponent in agent.components


def no_position(self, agent, old):
    return PositionComponent not in old.agent.components


def agent_in_world(self, agent):
    """The moved agent's position satisfies the world bounds (it is a resident of this world)."""
    return (PositionComponent not in agent.components
            or (axis_ok(pos_of(agent).x, self.width, self._index_offset)
                and axis_ok(pos_of(agent).y, self.height, self._index_offset)
                and axis_ok(pos_of(agent).z, self.depth, self._index_offset)))


# ------------------------------------------------------------------------------------------------ move
def move_axis(p0, d, extent, off, wrap):
    """C08 statement: (old + delta) modulo extent when wrapping (axes of extent 0 untouched), else saturated."""
    return (((p0 + d) % extent) if extent != 0 else p0) if wrap else max(min(p0 + d, extent - off), 0)


def move_post(self, agent, x, y, z, old):
    p = pos_of(agent)
    p0 = was(old, old.agent.components[PositionComponent])
    return (p.x == move_axis(p0.x, x, self.width, self._index_offset, self.wrap_env)
            and p.y == move_axis(p0.y, y, self.height, self._index_offset, self.wrap_env)
            and p.z == move_axis(p0.z, z, self.depth, self._index_offset, self.wrap_env))


POS_MODS = ['agent.components[PositionComponent].x', 'agent.components[PositionComponent].y',
            'agent.components[PositionComponent].z']

contract('Environments.SpaceWorld.move',
         params={'self': 'ref:SpaceWorld', 'agent': 'ref:Agent', 'x': 'num', 'y': 'num', 'z': 'num'},
         requires=[agent_in_world],
         ensures={'C08': [move_post, agent_in_world]},
         raises={'ComponentNotFoundError': dict(when=no_position)},
         modifies=POS_MODS + ['new:list[cls]'],
         modes=['int', 'real'], cases=WORLD_CASES, props=['C08'])


def move_to_ok(self, agent, x, y, z):
    return ((0 <= x and x <= self.width - self._index_offset or self.width < 1)
            and (0 <= y and y <= self.height - self._index_offset or self.height < 1)
            and (0 <= z and z <= self.depth - self._index_offset or self.depth < 1))


def move_to_post(self, agent, x, y, z, old):
    p = pos_of(agent)
    return p.x == x and p.y == y and p.z == z


def move_to_rejected(self, agent, x, y, z, old):
    return PositionComponent in old.agent.components and not move_to_ok(self, agent, x, y, z)


contract('Environments.SpaceWorld.move_to',
         params={'self': 'ref:SpaceWorld', 'agent': 'ref:Agent', 'x': 'num', 'y': 'num', 'z': 'num'},
         requires=[agent_in_world],
         ensures={'C08': [move_to_post, agent_in_world]},
         raises={'ComponentNotFoundError': dict(when=no_position), 'IndexError': dict(when=move_to_rejected)},
         modifies=POS_MODS + ['new:list[cls]'],
         modes=['int', 'real'], cases=WORLD_CASES, props=['C08'])
from pyvc.specs import now, was   # noqa: E402


# ------------------------------------------------------------------------------------------------ construction
def space_init_post(self, model, width, height, depth, id, wrap_env, old):
    return (self.width == width and self.height == height and self.depth == depth and self.wrap_env == wrap_env
            and self._index_offset == 0 and self.id == id and self.model is model and len(self.agents) == 0
            and len(self.components) == 0 and is_fresh(self.agents, old) and is_fresh(self.components, old))


contract('Environments.SpaceWorld.__init__',
         params={'self': 'ref:SpaceWorld', 'model': 'ref:Model', 'width': 'num', 'height': 'num', 'depth': 'num',
                 'id': 'str', 'wrap_env': 'bool'},
         ensures={'C08': [space_init_post, InWorld], 'C04': [space_init_post, Env_rep]},
         modifies=['self.id', 'self.model', 'field:self.components', 'self.tag', 'field:self.agents', 'self.width',
                   'self.height', 'self.depth', 'self.wrap_env', 'self._index_offset',
                   'new:dict[cls,ref:Component]', 'new:dict[str,ref:Agent]'],
         modes=['int', 'real'], use='inline', props=['C08', 'C04'])


def position_init_post(self, agent, model, x, y, z):
    return self.x == x and self.y == y and self.z == z and self.agent is agent and self.model is model


contract('Environments.PositionComponent.__init__',
         params={'self': 'ref:PositionComponent', 'agent': 'ref:Agent', 'model': 'ref:Model', 'x': 'num', 'y': 'num',
                 'z': 'num'},
         ensures={'C08': [position_init_post]},
         modifies=['self.agent', 'self.model', 'self.x', 'self.y', 'self.z'],
         modes=['int', 'real'], use='inline', props=['C08'])


# ------------------------------------------------------------------------------------------------ placement
def oob_axis(p, extent, off):
    return extent > 0 and (p > extent - off or p < 0)


def placement_oob(self, agent, x_pos, y_pos, z_pos, old):
    return (oob_axis(x_pos, self.width, self._index_offset) or oob_axis(y_pos, self.height, self._index_offset)
            or oob_axis(z_pos, self.depth, self._index_offset))


def placement_dup(self, agent, x_pos, y_pos, z_pos, old):
    return not placement_oob(self, agent, x_pos, y_pos, z_pos, old) and agent.id in old.self.agents


def space_add_post(self, agent, x_pos, y_pos, z_pos, old):
    return dict_added(self.agents, old.self.agents, agent.id, agent)


def space_add_placed(self, agent, x_pos, y_pos, z_pos, old):
    """An accepted placement lands exactly where requested, on a position component created for this agent."""
    p = pos_of(agent)
    return (PositionComponent in agent.components and p.x == x_pos and p.y == y_pos and p.z == z_pos
            and p.agent is agent and is_fresh(p, old)
            and dict_added(agent.components, old.agent.components, PositionComponent, p))


def space_add_pools(self, agent, x_pos, y_pos, z_pos, old):
    P = self.model.systems.component_pools
    P0 = old.self.model.systems.component_pools
    C = old.agent.components
    return (all(pool_ext(P, P0, T, C[T]) for T in C)
            and all(T in C or pool_same(P, P0, T) for T in P0)
            and all(T in C or T in P0 for T in P))


contract('Environments.SpaceWorld.add_agent',
         params={'self': 'ref:SpaceWorld', 'agent': 'ref:Agent', 'x_pos': 'num', 'y_pos': 'num', 'z_pos': 'num'},
         requires=[Env_rep, env_linked, joiner_ok, env_mirror, InWorld, no_position_pool],
         ensures={'C04': [space_add_post, Env_rep], 'C08': [space_add_post, Env_rep, space_add_placed, InWorld],
                  'C03': [space_add_post, Env_rep, space_add_pools, env_mirror, no_position_pool]},
         raises={'Exception': dict(when=placement_oob), 'DuplicateAgentError': dict(when=placement_dup)},
         modifies=['self.agents', 'self.model.systems.component_pools', 'store:list[ref:Component]',
                   'new:list[ref:Component]', 'agent.components', 'new:obj:PositionComponent'],
         modes=['int', 'real'], cases=PLACE_CASES, props=['C03', 'C04', 'C08'])


def leaver_positioned(self, a_id):
    A = self.agents
    return a_id not in A or (PositionComponent in A[a_id].components and Agent_rep(A[a_id]))


def space_remove_post(self, a_id, old):
    return dict_removed(self.agents, old.self.agents, a_id)


def space_remove_dropped(self, a_id, old):
    """Leaving the world drops the position; the other components stay attached."""
    a = now(old.self.agents[a_id])
    return dict_removed(a.components, was(old, old.self.agents[a_id]).components, PositionComponent)


def space_remove_pools(self, a_id, old):
    P = self.model.systems.component_pools
    P0 = old.self.model.systems.component_pools
    C = now(old.self.agents[a_id]).components
    return (all(pool_cut(P, P0, T, C[T]) for T in C)
            and all(T in C or pool_same(P, P0, T) for T in P0)
            and all(T in P0 for T in P))


contract('Environments.SpaceWorld.remove_agent',
         params={'self': 'ref:SpaceWorld', 'a_id': 'str'},
         requires=[Env_rep, env_linked, env_mirror, InWorld, leaver_positioned, no_position_pool],
         ensures={'C04': [space_remove_post, Env_rep], 'C08': [space_remove_post, Env_rep, space_remove_dropped, InWorld],
                  'C03': [space_remove_post, Env_rep, space_remove_pools, env_mirror, no_position_pool]},
         raises={'AgentNotFoundError': dict(when=env_remove_unknown)},
         modifies=['self.agents', 'self.model.systems.component_pools', 'store:list[ref:Component]',
                   'self.agents[a_id].components'],
         modes=['int', 'real'], cases=PLACE_CASES, props=['C03', 'C04', 'C08'])


# ------------------------------------------------------------------------------------------------ C12 positional query
def within(p, q, a, l):
    """C12 statement: |p - q| <= the larger of the per-axis leeway a and the general leeway l (bounds inclusive)."""
    return q - max(a, l) <= p and p <= q + max(a, l)


def in_box(a, x_pos, y_pos, z_pos, leeway, x_leeway, y_leeway, z_leeway):
    p = pos_of(a)
    return (within(p.x, x_pos, x_leeway, leeway) and within(p.y, y_pos, y_leeway, leeway)
            and within(p.z, z_pos, z_leeway, leeway))


def all_positioned(self):
    A = self.agents
    return all(PositionComponent in A[k].components for k in A)


def get_agents_at_post(self, x_pos, y_pos, z_pos, leeway, x_leeway, y_leeway, z_leeway, result, old):
    A = self.agents
    return (is_fresh(result, old)
            and all(result[i].id in A and A[result[i].id] is result[i]
                    and in_box(result[i], x_pos, y_pos, z_pos, leeway, x_leeway, y_leeway, z_leeway)
                    for i in range(len(result)))
            and all(order_of(A, result[i].id) < order_of(A, result[j].id)
                    for i in range(len(result)) for j in range(i + 1, len(result)))
            and all(index_of(result, A[k]) < len(result) for k in A
                    if in_box(A[k], x_pos, y_pos, z_pos, leeway, x_leeway, y_leeway, z_leeway)))


contract('Environments.SpaceWorld.get_agents_at',
         params={'self': 'ref:SpaceWorld', 'x_pos': 'num', 'y_pos': 'num', 'z_pos': 'num', 'leeway': 'num',
                 'x_leeway': 'num', 'y_leeway': 'num', 'z_leeway': 'num'},
         returns='list[ref:Agent]',
         requires=[Env_rep, all_positioned],
         ensures={'C12': [get_agents_at_post]},
         modifies=['new:list[ref:Agent]'],
         modes=['int', 'real'], props=['C12'])


# ------------------------------------------------------------------------------------------------ grid worlds (C09-C11)
fields_of('DataFrame', pos='list[tuple[int,int,int]]', cols='dict[str,list[any]]')
fields_of('Row', df='ref:DataFrame', idx='int')
REG.frame_tags.update({'pos': ['C09', 'C11'], 'cols': ['C11'], 'dict[str,list[any]]': ['C11'], 'list[any]': ['C11'],
                       'list[tuple[int,int,int]]': ['C09', 'C11'], 'df': ['C09'], 'idx': ['C09']})


def cell_id(x, y, z, W, H):
    """C09: row-major id with single-layer (zero-extent) axes counted as extent 1."""
    return (z * max(H, 1) + y) * max(W, 1) + x


def pos_to_id_post(x, y, width, z, height, result):
    return result == cell_id(x, y, z, width, height)


contract('Environments.discrete_grid_pos_to_id',
         params={'x': 'int', 'y': 'int', 'width': 'int', 'z': 'int', 'height': 'int'}, returns='int',
         ensures={'C09': [pos_to_id_post], 'C10': [pos_to_id_post]},
         use='inline', props=['C09', 'C10'])


def id_in_range(x, y, z, W, H, D):
    """(a) in-range coordinates give ids in 0 .. cells-1."""
    return implies(0 <= x and x < max(W, 1) and 0 <= y and y < max(H, 1) and 0 <= z and z < max(D, 1)
                   and W >= 0 and H >= 0 and D >= 0,
                   0 <= cell_id(x, y, z, W, H) and cell_id(x, y, z, W, H) < max(W, 1) * max(H, 1) * max(D, 1))


def id_injective(x, y, z, x2, y2, z2, W, H, D):
    """(a) distinct in-range coordinates give distinct ids."""
    return implies(0 <= x and x < max(W, 1) and 0 <= y and y < max(H, 1) and 0 <= z and z < max(D, 1)
                   and 0 <= x2 and x2 < max(W, 1) and 0 <= y2 and y2 < max(H, 1) and 0 <= z2 and z2 < max(D, 1)
                   and W >= 0 and H >= 0 and D >= 0
                   and cell_id(x, y, z, W, H) == cell_id(x2, y2, z2, W, H),
                   x == x2 and y == y2 and z == z2)


lemma('cell_id_in_range', ['C09'], id_in_range,
      params={'x': 'int', 'y': 'int', 'z': 'int', 'W': 'int', 'H': 'int', 'D': 'int'})
lemma('cell_id_injective', ['C09'], id_injective,
      params={'x': 'int', 'y': 'int', 'z': 'int', 'x2': 'int', 'y2': 'int', 'z2': 'int', 'W': 'int', 'H': 'int',
              'D': 'int'})


def Grid_rep(self):
    """The position table holds, at every cell id, that cell's coordinates (row-major, single layers as 1)."""
    W = self.width
    H = self.height
    D = self.depth
    pos = self.cells.pos
    return (self._index_offset == 1 and W >= 0 and H >= 0 and D >= 0
            and len(pos) == max(D, 1) * max(H, 1) * max(W, 1)
            and all(pos[cell_id(x, y, z, W, H)] == (x, y, z)
                    for z in range(max(D, 1)) for y in range(max(H, 1)) for x in range(max(W, 1))))


def discrete_init_post(self, model, width, height, depth, id, wrap_env, old):
    return (self.width == width and self.height == height and self.depth == depth and self.wrap_env == wrap_env
            and self.id == id and self.model is model and len(self.agents) == 0 and len(self.cells.cols) == 0
            and self._index_offset == 1)


def nonneg_extents(self, model, width, height, depth, id, wrap_env):
    return width >= 0 and height >= 0 and depth >= 0


contract('Environments.DiscreteWorld.__init__',
         params={'self': 'ref:DiscreteWorld', 'model': 'ref:Model', 'width': 'int', 'height': 'int', 'depth': 'int',
                 'id': 'str', 'wrap_env': 'bool'},
         requires=[nonneg_extents],
         ensures={'C09': [discrete_init_post, Grid_rep], 'C08': [discrete_init_post, InWorld]},
         modifies=['self.id', 'self.model', 'field:self.components', 'self.tag', 'field:self.agents', 'self.width',
                   'self.height', 'self.depth', 'self.wrap_env', 'self._index_offset', 'self.cells',
                   'new:dict[cls,ref:Component]', 'new:dict[str,ref:Agent]', 'new:obj:DataFrame',
                   'new:list[tuple[int,int,int]]', 'new:dict[str,list[any]]'],
         native=False, props=['C09', 'C08'])


def get_cell_post(self, x, y, z, result):
    """(c) the row of exactly that cell (all columns, assumed iloc contract)."""
    return result.df is self.cells and result.idx == cell_id(x, y, z, self.width, self.height)


def get_cell_outside(self, x, y, z, old):
    """(d) rejected iff some coordinate is outside the grid (zero-extent axes hold the single layer 0)."""
    return (x < 0 or x >= max(self.width, 1) or y < 0 or y >= max(self.height, 1)
            or z < 0 or z >= max(self.depth, 1))


contract('Environments.DiscreteWorld.get_cell',
         params={'self': 'ref:DiscreteWorld', 'x': 'int', 'y': 'int', 'z': 'int'}, returns='ref:Row',
         requires=[Grid_rep],
         ensures={'C09': [get_cell_post], 'C11': [get_cell_post]},
         raises={'IndexError': dict(when=get_cell_outside)},
         modifies=['new:obj:Row'], native=False, props=['C09'])


# ------------------------------------------------------------------------------------------------ C10 neighbourhoods
def in_grid(x, y, z, W, H, D):
    return 0 <= x and x < max(W, 1) and 0 <= y and y < max(H, 1) and 0 <= z and z < max(D, 1)


def cheb(x, y, z, cx, cy, cz):
    return max(max(abs(x - cx), abs(y - cy)), abs(z - cz))


def manh(x, y, z, cx, cy, cz):
    return abs(x - cx) + abs(y - cy) + abs(z - cz)


def in_moore(self, x, y, z, cx, cy, cz, radius, incl):
    return (in_grid(x, y, z, self.width, self.height, self.depth) and cheb(x, y, z, cx, cy, cz) <= radius
            and (incl or not (x == cx and y == cy and z == cz)))


def in_neumann(self, x, y, z, cx, cy, cz, radius, incl):
    return (in_grid(x, y, z, self.width, self.height, self.depth) and manh(x, y, z, cx, cy, cz) <= radius
            and (incl or not (x == cx and y == cy and z == cz)))


def lex_less(a, b):
    """Ascending cell order: z major, then y, then x."""
    return a[2] < b[2] or (a[2] == b[2] and (a[1] < b[1] or (a[1] == b[1] and a[0] < b[0])))


def centre_ok(self, cell_pos, radius):
    return radius >= 0 and in_grid(cell_pos[0], cell_pos[1], cell_pos[2], self.width, self.height, self.depth)


def is_tuple_ret(self, cell_pos, radius, incl_center, ret_type):
    return ret_type is tuple


def is_int_ret(self, cell_pos, radius, incl_center, ret_type):
    return ret_type is int


def moore_tuple_post(self, cell_pos, radius, incl_center, ret_type, result, old):
    cx = cell_pos[0]
    cy = cell_pos[1]
    cz = cell_pos[2]
    return (is_fresh(result, old)
            and all(in_moore(self, result[i][0], result[i][1], result[i][2], cx, cy, cz, radius, incl_center)
                    for i in range(len(result)))
            and all(lex_less(result[i], result[j]) for i in range(len(result)) for j in range(i + 1, len(result)))
            and all(index_of(result, (x, y, z)) < len(result)
                    for z in range(max(self.depth, 1)) for y in range(max(self.height, 1))
                    for x in range(max(self.width, 1)) if in_moore(self, x, y, z, cx, cy, cz, radius, incl_center)))


def neumann_tuple_post(self, cell_pos, radius, incl_center, ret_type, result, old):
    cx = cell_pos[0]
    cy = cell_pos[1]
    cz = cell_pos[2]
    return (is_fresh(result, old)
            and all(in_neumann(self, result[i][0], result[i][1], result[i][2], cx, cy, cz, radius, incl_center)
                    for i in range(len(result)))
            and all(lex_less(result[i], result[j]) for i in range(len(result)) for j in range(i + 1, len(result)))
            and all(index_of(result, (x, y, z)) < len(result)
                    for z in range(max(self.depth, 1)) for y in range(max(self.height, 1))
                    for x in range(max(self.width, 1)) if in_neumann(self, x, y, z, cx, cy, cz, radius, incl_center)))


NBR_PARAMS = {'self': 'ref:DiscreteWorld', 'cell_pos': 'tuple[int,int,int]', 'radius': 'int', 'incl_center': 'bool',
              'ret_type': 'cls'}

contract('Environments.DiscreteWorld.get_moore_neighbours', variant='tuple',
         params=NBR_PARAMS, returns='list[tuple[int,int,int]]',
         requires=[grid_world, centre_ok, is_tuple_ret],
         ensures={'C10': [moore_tuple_post]},
         modifies=['new:list[tuple[int,int,int]]'],
         locals={'neighbours': 'list[tuple[int,int,int]]'}, roles={'neighbours': 'emptylist#0'}, native=False, props=['C10'])
contract('Environments.DiscreteWorld.get_neumann_neighbours', variant='tuple',
         params=NBR_PARAMS, returns='list[tuple[int,int,int]]',
         requires=[grid_world, centre_ok, is_tuple_ret],
         ensures={'C10': [neumann_tuple_post]},
         modifies=['new:list[tuple[int,int,int]]'],
         locals={'neighbours': 'list[tuple[int,int,int]]'}, roles={'neighbours': 'emptylist#0'}, native=False, props=['C10'])
from pyvc.specs import origin, by_lemma   # noqa: E402


def id_monotone(x, y, z, x2, y2, z2, W, H, D):
    """Ids increase with the ascending cell order (z major, then y, then x) on in-grid coordinates."""
    return implies(in_grid(x, y, z, W, H, D) and in_grid(x2, y2, z2, W, H, D) and W >= 0 and H >= 0 and D >= 0
                   and (z < z2 or (z == z2 and (y < y2 or (y == y2 and x < x2)))),
                   cell_id(x, y, z, W, H) < cell_id(x2, y2, z2, W, H))


lemma('cell_id_monotone', ['C10'], id_monotone,
      params={'x': 'int', 'y': 'int', 'z': 'int', 'x2': 'int', 'y2': 'int', 'z2': 'int', 'W': 'int', 'H': 'int',
              'D': 'int'})


def moore_int_post(self, cell_pos, radius, incl_center, ret_type, result, old):
    """id form: every element is the id of an in-ball cell (source witness of the scan), ascending, complete."""
    cx = cell_pos[0]
    cy = cell_pos[1]
    cz = cell_pos[2]
    W = self.width
    H = self.height
    return (is_fresh(result, old)
            and all(in_moore(self, origin(result, i)[2], origin(result, i)[1], origin(result, i)[0], cx, cy, cz, radius,
                             incl_center)
                    and result[i] == cell_id(origin(result, i)[2], origin(result, i)[1], origin(result, i)[0], W, H)
                    for i in range(len(result)))
            and all(by_lemma(id_monotone, origin(result, i)[2], origin(result, i)[1], origin(result, i)[0],
                             origin(result, j)[2], origin(result, j)[1], origin(result, j)[0], W, H, self.depth)
                    for i in range(len(result)) for j in range(i + 1, len(result)))
            and all(result[i] < result[j] for i in range(len(result)) for j in range(i + 1, len(result)))
            and all(index_of(result, cell_id(x, y, z, W, H)) < len(result)
                    for z in range(max(self.depth, 1)) for y in range(max(self.height, 1))
                    for x in range(max(self.width, 1)) if in_moore(self, x, y, z, cx, cy, cz, radius, incl_center)))


def neumann_int_post(self, cell_pos, radius, incl_center, ret_type, result, old):
    cx = cell_pos[0]
    cy = cell_pos[1]
    cz = cell_pos[2]
    W = self.width
    H = self.height
    return (is_fresh(result, old)
            and all(in_neumann(self, origin(result, i)[2], origin(result, i)[1], origin(result, i)[0], cx, cy, cz,
                               radius, incl_center)
                    and result[i] == cell_id(origin(result, i)[2], origin(result, i)[1], origin(result, i)[0], W, H)
                    for i in range(len(result)))
            and all(by_lemma(id_monotone, origin(result, i)[2], origin(result, i)[1], origin(result, i)[0],
                             origin(result, j)[2], origin(result, j)[1], origin(result, j)[0], W, H, self.depth)
                    for i in range(len(result)) for j in range(i + 1, len(result)))
            and all(result[i] < result[j] for i in range(len(result)) for j in range(i + 1, len(result)))
            and all(index_of(result, cell_id(x, y, z, W, H)) < len(result)
                    for z in range(max(self.depth, 1)) for y in range(max(self.height, 1))
                    for x in range(max(self.width, 1)) if in_neumann(self, x, y, z, cx, cy, cz, radius, incl_center)))


contract('Environments.DiscreteWorld.get_moore_neighbours', variant='int',
         params=NBR_PARAMS, returns='list[int]',
         requires=[grid_world, centre_ok, is_int_ret],
         ensures={'C10': [moore_int_post]},
         modifies=['new:list[int]'],
         locals={'neighbours': 'list[int]'}, roles={'neighbours': 'emptylist#0'}, native=False, props=['C10'])
contract('Environments.DiscreteWorld.get_neumann_neighbours', variant='int',
         params=NBR_PARAMS, returns='list[int]',
         requires=[grid_world, centre_ok, is_int_ret],
         ensures={'C10': [neumann_int_post]},
         modifies=['new:list[int]'],
         locals={'neighbours': 'list[int]'}, roles={'neighbours': 'emptylist#0'}, native=False, props=['C10'])


def as_tuple_int_post(self, cell_pos, result):
    """Cell id -> that cell's coordinates through the position table."""
    return result == self.cells.pos[cell_pos]


def id_in_table(self, cell_pos):
    return 0 <= cell_pos and cell_pos < len(self.cells.pos)


contract('Environments.DiscreteWorld._get_cell_pos_as_tuple', variant='id',
         params={'self': 'ref:DiscreteWorld', 'cell_pos': 'int'}, returns='tuple[int,int,int]',
         requires=[id_in_table], ensures={'C10': [as_tuple_int_post]}, native=False, props=['C10'])


def as_tuple_tuple_post(self, cell_pos, result):
    return result == cell_pos


contract('Environments.DiscreteWorld._get_cell_pos_as_tuple', variant='tuple',
         params={'self': 'ref:DiscreteWorld', 'cell_pos': 'tuple[int,int,int]'}, returns='tuple[int,int,int]',
         ensures={'C10': [as_tuple_tuple_post]}, native=False, props=['C10'])


def as_tuple_comp_post(self, cell_pos, result):
    """Position component -> the cell containing it (truncation = floor for the non-negative in-grid positions)."""
    return (implies(cell_pos.x >= 0, result[0] <= cell_pos.x and cell_pos.x < result[0] + 1)
            and implies(cell_pos.y >= 0, result[1] <= cell_pos.y and cell_pos.y < result[1] + 1)
            and implies(cell_pos.z >= 0, result[2] <= cell_pos.z and cell_pos.z < result[2] + 1))


contract('Environments.DiscreteWorld._get_cell_pos_as_tuple', variant='component',
         params={'self': 'ref:DiscreteWorld', 'cell_pos': 'ref:PositionComponent'}, returns='tuple[int,int,int]',
         ensures={'C10': [as_tuple_comp_post]}, modes=['real'], native=False, props=['C10'])


def mode_moore(self, cell_pos, radius, incl_center, ret_type, mode):
    return mode == 'moore' and ret_type is tuple


def mode_neumann(self, cell_pos, radius, incl_center, ret_type, mode):
    return mode == 'neumann' and ret_type is tuple


def mode_other(self, cell_pos, radius, incl_center, ret_type, mode, old):
    return mode != 'moore' and mode != 'neumann'


def nbr_centre_ok(self, cell_pos, radius, incl_center, ret_type, mode):
    return centre_ok(self, cell_pos, radius) and grid_world(self)


def generic_moore_post(self, cell_pos, radius, incl_center, ret_type, mode, result, old):
    return implies(mode == 'moore', moore_tuple_post(self, cell_pos, radius, incl_center, ret_type, result, old))


def generic_neumann_post(self, cell_pos, radius, incl_center, ret_type, mode, result, old):
    return implies(mode == 'neumann', neumann_tuple_post(self, cell_pos, radius, incl_center, ret_type, result, old))


def ret_is_tuple(self, cell_pos, radius, incl_center, ret_type, mode):
    return ret_type is tuple


contract('Environments.DiscreteWorld.get_neighbours',
         params=dict(NBR_PARAMS, mode='str'), returns='list[tuple[int,int,int]]',
         requires=[nbr_centre_ok, ret_is_tuple],
         ensures={'C10': [generic_moore_post, generic_neumann_post]},
         raises={'KeyError': dict(when=mode_other)},
         modifies=['new:list[tuple[int,int,int]]'], view='tuple', native=False, props=['C10'])
from pyvc.specs import as_list, is_ndarray, is_list   # noqa: E402


# ------------------------------------------------------------------------------------------------ C11 cell components
def cell_name_ok(self, name, generator):
    """`pos` is the world's own position table, not a cell component."""
    return name != 'pos'


def seq_fits(self, name, generator):
    """A supplied sequence / array has one element per cell."""
    return implies(is_ndarray(generator) or is_list(generator), len(as_list(generator)) == len(self.cells.pos))


def cellcomp_added(self, name, generator, old):
    """The new column is a fresh list with one value per cell; every other column is the same object with the same
    contents; the set of cells (position table) is untouched."""
    cols = self.cells.cols
    cols0 = old.self.cells.cols
    return (name in cols and is_fresh(cols[name], old) and len(cols[name]) == len(self.cells.pos)
            and all(k in cols and (k == name or (same_obj(cols[k], cols0[k]) and same_elems(cols[k], cols0[k])))
                    for k in cols0)
            and all(k in cols0 or k == name for k in cols)
            and same_elems(self.cells.pos, old.self.cells.pos))


def cellcomp_values_seq(self, name, generator, old):
    """Sequence / array sources: cell id i holds element i."""
    return implies(is_ndarray(generator) or is_list(generator), same_elems(self.cells.cols[name], as_list(generator)))


def cellcomp_values_callable(self, name, generator, old):
    """Callable sources: cell id i holds generator(coordinates of cell i, cells)."""
    pos = self.cells.pos
    col = self.cells.cols[name]
    return implies(not is_ndarray(generator) and not is_list(generator),
                   all(same(col[i], generator(pos[i], self.cells)) for i in range(len(pos))))


contract('Environments.DiscreteWorld.add_cell_component',
         params={'self': 'ref:DiscreteWorld', 'name': 'str', 'generator': 'any'},
         requires=[cell_name_ok, seq_fits],
         ensures={'C11': [cellcomp_added, cellcomp_values_seq, cellcomp_values_callable]},
         modifies=['self.cells.cols', 'new:list[any]'],
         native=False, props=['C11'])


def cellcomp_removed(self, name, old):
    cols = self.cells.cols
    cols0 = old.self.cells.cols
    return (dict_removed(cols, cols0, name)
            and all(k == name or same_elems(cols[k], cols0[k]) for k in cols0)
            and same_elems(self.cells.pos, old.self.cells.pos))


def cellcomp_unknown(self, name, old):
    return name not in old.self.cells.cols


def remove_name_ok(self, name):
    return name != 'pos'


contract('Environments.DiscreteWorld.remove_cell_component',
         params={'self': 'ref:DiscreteWorld', 'name': 'str'},
         requires=[remove_name_ok],
         ensures={'C11': [cellcomp_removed]},
         raises={'ComponentNotFoundError': dict(when=cellcomp_unknown)},
         modifies=['self.cells.cols', 'new:list[str]'],
         native=False, props=['C11'])


def constant_gen_post(self, pos, cells, result):
    return same(result, self.value)


contract('Environments.ConstantGenerator.__call__',
         params={'self': 'ref:ConstantGenerator', 'pos': 'tuple[int,int,int]', 'cells': 'ref:DataFrame'},
         returns='any', ensures={'C11': [constant_gen_post]}, native=False, props=['C11'])


def lookup3_post(self, pos, cells, result):
    return same(result, self.table[pos[0]][pos[1]][pos[2]])


contract('Environments.LookupGenerator.__call__',
         params={'self': 'ref:LookupGenerator', 'pos': 'tuple[int,int,int]', 'cells': 'ref:DataFrame'},
         returns='any', ensures={'C11': [lookup3_post]}, native=False, props=['C11'])


def lookup_line_post(self, pos, cells, result):
    """Expected by the property on a line world with a 1-D table: the entry at the cell's x coordinate."""
    return same(result, self.table[pos[0]])


contract('Environments.LookupGenerator.__call__', variant='line',
         params={'self': 'ref:LookupGenerator', 'pos': 'tuple[int,int,int]', 'cells': 'ref:DataFrame'},
         returns='any', ensures={'C11': [lookup_line_post]}, native=False, props=['C11'],
         expect_refuted=True, notes='expected refuted: open finding F4')


def lookup_grid_post(self, pos, cells, result):
    """Expected by the property on a 2-D world with a 2-D table."""
    return same(result, self.table[pos[0]][pos[1]])


contract('Environments.LookupGenerator.__call__', variant='grid2d',
         params={'self': 'ref:LookupGenerator', 'pos': 'tuple[int,int,int]', 'cells': 'ref:DataFrame'},
         returns='any', ensures={'C11': [lookup_grid_post]}, native=False, props=['C11'],
         expect_refuted=True, notes='expected refuted: open finding F4')


# ------------------------------------------------------------------------------------------------ LineWorld / GridWorld
def line_init_post(self, model, width, id, wrap_env, old):
    return (self.width == width and self.height == 0 and self.depth == 0 and self.wrap_env == wrap_env
            and self._index_offset == 1 and len(self.agents) == 0)


def line_bad(self, model, width, id, wrap_env, old):
    return width < 1


contract('Environments.LineWorld.__init__',
         params={'self': 'ref:LineWorld', 'model': 'ref:Model', 'width': 'int', 'id': 'str', 'wrap_env': 'bool'},
         ensures={'C09': [line_init_post, Grid_rep], 'C08': [line_init_post, InWorld]},
         raises={'IndexError': dict(when=line_bad)},
         modifies=['self.id', 'self.model', 'field:self.components', 'self.tag', 'field:self.agents', 'self.width',
                   'self.height', 'self.depth', 'self.wrap_env', 'self._index_offset', 'self.cells',
                   'new:dict[cls,ref:Component]', 'new:dict[str,ref:Agent]', 'new:obj:DataFrame',
                   'new:list[tuple[int,int,int]]', 'new:dict[str,list[any]]'],
         native=False, props=['C09', 'C08'])


def grid_init_post(self, model, width, height, id, wrap_env, old):
    return (self.width == width and self.height == height and self.depth == 0 and self.wrap_env == wrap_env
            and self._index_offset == 1 and len(self.agents) == 0)


def grid_bad(self, model, width, height, id, wrap_env, old):
    return width < 1 or height < 1


contract('Environments.GridWorld.__init__',
         params={'self': 'ref:GridWorld', 'model': 'ref:Model', 'width': 'int', 'height': 'int', 'id': 'str',
                 'wrap_env': 'bool'},
         ensures={'C09': [grid_init_post, Grid_rep], 'C08': [grid_init_post, InWorld]},
         raises={'IndexError': dict(when=grid_bad)},
         modifies=['self.id', 'self.model', 'field:self.components', 'self.tag', 'field:self.agents', 'self.width',
                   'self.height', 'self.depth', 'self.wrap_env', 'self._index_offset', 'self.cells',
                   'new:dict[cls,ref:Component]', 'new:dict[str,ref:Agent]', 'new:obj:DataFrame',
                   'new:list[tuple[int,int,int]]', 'new:dict[str,list[any]]'],
         native=False, props=['C09', 'C08'])
