"""Checked contracts for ECAgent/Tags.py (C19).  TagLibrary is modelled through its instance __dict__:
attribute reads resolve the instance dict first and the class (methods) second - pyvc.hooks.ns_getattr."""
from pyvc.specs import contract, fields_of, lemma, implies, iff, index_of, order_of, key_at, is_fresh, \
    same_elems, same_dict, typeof, is_none, same, same_obj, was, is_module_global, REG

fields_of('TagLibrary', __dict__='dict[str,any]')
REG.namespaces['TagLibrary'] = {'_tag_names': 'list[str]', '_tag_counter': 'int', 'NONE': 'int'}
REG.frame_tags.update({'dict[str,any]': ['C19'], 'list[str]': ['C19'], '__dict__': ['C19']})


def Tag_rep(self):
    """Name <-> id bijection kept in the instance dict; internals intact; no library method shadowed."""
    D = self.__dict__
    return ('_tag_counter' in D and '_tag_names' in D
            and self._tag_counter >= 1 and len(self._tag_names) == self._tag_counter
            and self._tag_names[0] == 'NONE'
            and all(self._tag_names[i] in D and D[self._tag_names[i]] == i
                    and self._tag_names[i] != '_tag_counter' and self._tag_names[i] != '_tag_names'
                    for i in range(self._tag_counter))
            and all(k == '_tag_counter' or k == '_tag_names' or index_of(self._tag_names, k) < self._tag_counter
                    for k in D)
            and 'add_tag' not in D and 'get_tag_name' not in D and 'itemize' not in D)


def taglib_init_post(self):
    return Tag_rep(self) and self._tag_counter == 1 and self.NONE == 0


def fresh_namespace(self):
    return len(self.__dict__) == 0


contract('Tags.TagLibrary.__init__', params={'self': 'ref:TagLibrary'},
         requires=[fresh_namespace],
         ensures={'C19': [taglib_init_post]},
         modifies=['self.__dict__', 'new:list[str]'], props=['C19'])


def add_tag_taken(self, tag_name, old):
    """must reject: the name is already in the library (a tag, or one of its internals)."""
    return tag_name in old.self.__dict__


def add_tag_may_reject(self, tag_name, old):
    """may reject: additionally any name the class itself defines (that is what keeps methods unshadowed)."""
    return tag_name in old.self.__dict__ or hasattr(typeof(self), tag_name)


def add_tag_post(self, tag_name, old):
    """next unused id, appended; every other entry untouched."""
    D = self.__dict__
    D0 = old.self.__dict__
    c0 = old.self._tag_counter
    return (D[tag_name] == c0 and self._tag_counter == c0 + 1 and len(self._tag_names) == c0 + 1
            and self._tag_names[c0] == tag_name
            and all(self._tag_names[i] == old.self._tag_names[i] for i in range(c0))
            and all(k in D and (k == '_tag_counter' or k == '_tag_names' or same(D[k], D0[k])) for k in D0)
            and all(k in D0 or k == tag_name for k in D))


contract('Tags.TagLibrary.add_tag', params={'self': 'ref:TagLibrary', 'tag_name': 'str'},
         requires=[Tag_rep],
         ensures={'C19': [add_tag_post, Tag_rep]},
         raises={'DuplicateTagError': dict(when=add_tag_may_reject, must=add_tag_taken)},
         modifies=['self.__dict__', 'self._tag_names'], props=['C19'])


def get_tag_name_post(self, tag_id, result):
    return result == self._tag_names[tag_id] and self.__dict__[result] == tag_id


def get_tag_name_unknown(self, tag_id, old):
    return tag_id < 0 or tag_id >= old.self._tag_counter


contract('Tags.TagLibrary.get_tag_name', params={'self': 'ref:TagLibrary', 'tag_id': 'int'}, returns='str',
         requires=[Tag_rep], ensures={'C19': [get_tag_name_post]},
         raises={'TagNotFoundError': dict(when=get_tag_name_unknown)}, props=['C19'])


def taglib_len_post(self, result):
    return result == self._tag_counter and result == len(self._tag_names)


contract('Tags.TagLibrary.__len__', params={'self': 'ref:TagLibrary'}, returns='int',
         requires=[Tag_rep], ensures={'C19': [taglib_len_post]}, props=['C19'])


def itemize_post(self, result, old):
    N = self._tag_names
    return (is_fresh(result, old) and len(result) == len(N)
            and all(result[i] == (N[i], i) for i in range(len(N))))


contract('Tags.TagLibrary.itemize', params={'self': 'ref:TagLibrary'}, returns='list[tuple[str,int]]',
         requires=[Tag_rep], ensures={'C19': [itemize_post]},
         modifies=['new:list[tuple[str,int]]'], props=['C19'])


# ------------------------------------------------------------------------------------------------ module level
def Module_rep():
    """The global library is well formed and none of its tag names is bound at module level in Tags.py (otherwise
    `Tags.<name>` finds the module member: module __getattr__ is consulted for missing names only)."""
    N = _module_library._tag_names
    return Tag_rep(_module_library) and all(not is_module_global(N[i]) for i in range(len(N)))


def m_add_taken(tag_name, old):
    return tag_name in was(old, _module_library).__dict__ or is_module_global(tag_name)


def m_add_may_reject(tag_name, old):
    return (tag_name in was(old, _module_library).__dict__ or hasattr(typeof(_module_library), tag_name)
            or is_module_global(tag_name))


contract('Tags.add_tag', params={'tag_name': 'str'},
         requires=[Module_rep],
         ensures={'C19': [Module_rep]},
         raises={'DuplicateTagError': dict(when=m_add_may_reject, must=m_add_taken)},
         modifies=['_module_library.__dict__', '_module_library._tag_names'], native=False, props=['C19'])


def m_get_name_post(tag_id, result):
    return result == _module_library._tag_names[tag_id] and _module_library.__dict__[result] == tag_id


def m_get_name_unknown(tag_id, old):
    return tag_id < 0 or tag_id >= was(old, _module_library)._tag_counter


contract('Tags.get_tag_name', params={'tag_id': 'int'}, returns='str',
         requires=[Module_rep], ensures={'C19': [m_get_name_post]},
         raises={'TagNotFoundError': dict(when=m_get_name_unknown)}, native=False, props=['C19'])


def m_itemize_post(result, old):
    N = _module_library._tag_names
    return len(result) == len(N) and all(result[i] == (N[i], i) for i in range(len(N)))


contract('Tags.itemize', params={}, returns='list[tuple[str,int]]',
         requires=[Module_rep], ensures={'C19': [m_itemize_post]},
         modifies=['new:list[tuple[str,int]]'], native=False, props=['C19'])


def m_getattr_post(tag_name, result):
    """Lookup by name is the inverse of lookup by id."""
    N = _module_library._tag_names
    return index_of(N, tag_name) < len(N) and result == index_of(N, tag_name)


def m_getattr_unknown(tag_name, old):
    """Unknown names (anything that is not a tag) raise the documented error."""
    return index_of(was(old, _module_library)._tag_names, tag_name) >= len(was(old, _module_library)._tag_names)


contract('Tags.__getattr__', params={'tag_name': 'str'}, returns='int',
         requires=[Module_rep], ensures={'C19': [m_getattr_post]},
         raises={'TagNotFoundError': dict(when=m_getattr_unknown)}, native=False, props=['C19'])
