"""Checked contracts for ECAgent/Batching.py (C14, C15, C16)."""
from pyvc.specs import contract, fields_of, lemma, implies, iff, index_of, order_of, key_at, is_fresh, \
    same_elems, same_dict, typeof, is_none, same, same_obj, was, REG, is_str_value, iterable, items_of, rec_has, \
    rec_get, pos_in
from contracts.core import dict_added, dict_removed

fields_of('ParameterList', _parameters='dict[str,any]')
REG.frame_tags.update({'_parameters': ['C14'], 'dict[str,any]': ['C19', 'C14', 'C16'], 'list[any]': ['C11', 'C14', 'C16', 'C17'],
                       'list[list[tuple[str,any]]]': ['C14'], 'list[tuple[str,any]]': ['C14'],
                       'list[dict[str,any]]': ['C16']})
REG.final_classes = getattr(REG, 'final_classes', set()) | {'ParameterList', 'SystemManager', 'TagLibrary', 'Decoder'}   # type(x) == ParameterList is exact


# ------------------------------------------------------------------------------------------------ C14 declaration
def pl_init_none_post(self, parameters, old):
    return len(self._parameters) == 0 and is_fresh(self._parameters, old)


contract('Batching.ParameterList.__init__', variant='empty',
         params={'self': 'ref:ParameterList', 'parameters': 'none'},
         ensures={'C14': [pl_init_none_post]},
         modifies=['field:self._parameters', 'new:dict[str,any]'], native=False, props=['C14'])


def pl_init_dict_post(self, parameters, old):
    """Declared through the constructor: same names, same values, same order; the caller's dict is not aliased."""
    return is_fresh(self._parameters, old) and same_dict(self._parameters, parameters)


def pl_init_inv(self, parameters, old, p):
    D = self._parameters
    return (0 <= p and p <= len(parameters) and len(D) == p and is_fresh(D, old)
            and all(key_at(parameters, j) in D and same(D[key_at(parameters, j)], parameters[key_at(parameters, j)])
                    for j in range(0, p))
            and all(order_of(D, key_at(parameters, i)) < order_of(D, key_at(parameters, j))
                    for i in range(0, p) for j in range(i + 1, p))
            and all(k in parameters and pos_in(parameters, k) < p for k in D))


contract('Batching.ParameterList.__init__', variant='dict',
         params={'self': 'ref:ParameterList', 'parameters': 'dict[str,any]'},
         ensures={'C14': [pl_init_dict_post]},
         modifies=['field:self._parameters', 'new:dict[str,any]'],
         loops={0: dict(invariant=[(pl_init_inv, ['C14'])], index='p', modifies=['self._parameters'])},
         native=False, props=['C14'],
         notes='keys are strings here; a non-string key raises AttributeError (constructor: the half-built object '
               'is discarded)')


def add_parameter_post(self, name, values, old):
    return dict_added(self._parameters, old.self._parameters, name, values)


def add_parameter_dup(self, name, values, old):
    return name in old.self._parameters


contract('Batching.ParameterList.add_parameter',
         params={'self': 'ref:ParameterList', 'name': 'str', 'values': 'any'},
         ensures={'C14': [add_parameter_post]},
         raises={'KeyError': dict(when=add_parameter_dup)},
         modifies=['self._parameters'], props=['C14'])


def name_not_str(self, name, values):
    return typeof(name) is not str


contract('Batching.ParameterList.add_parameter', variant='nonstr',
         params={'self': 'ref:ParameterList', 'name': 'any', 'values': 'any'},
         requires=[name_not_str],
         raises={'AttributeError': dict(when=None, always=True)},
         modifies=[], props=['C14'], notes='a non-string name must be rejected with nothing changed')


def remove_parameter_post(self, name, old):
    return dict_removed(self._parameters, old.self._parameters, name)


def remove_parameter_unknown(self, name, old):
    return name not in old.self._parameters


contract('Batching.ParameterList.remove_parameter',
         params={'self': 'ref:ParameterList', 'name': 'str'},
         ensures={'C14': [remove_parameter_post]},
         raises={'KeyError': dict(when=remove_parameter_unknown)},
         modifies=['self._parameters'], props=['C14'])


# ------------------------------------------------------------------------------------------------ C14 build
def single(v):
    """Scalars and strings are single values; everything iterable (and not a string) contributes its items."""
    return is_str_value(v) or not iterable(v)


def options_ok(L, k, v):
    """L is the (name, value) list of parameter k: one pair per item of a collection, one pair for a single value."""
    return ((single(v) and len(L) == 1 and L[0] == (k, v))
            or (not single(v) and len(L) == len(items_of(v))
                and all(L[i] == (k, items_of(v)[i]) for i in range(len(items_of(v))))))


def build_inv(self, old, p, param_list):
    P = self._parameters
    return (0 <= p and p <= len(P) and len(param_list) == p and is_fresh(param_list, old)
            and all(options_ok(param_list[j], key_at(P, j), P[key_at(P, j)]) and is_fresh(param_list[j], old)
                    for j in range(0, p)))


def build_post(self, result, old):
    """Every combination dictionary has exactly the declared names, each with a single value itself or an item of
    that parameter's collection; no combination for an empty collection, one for no parameters.  (Each index
    combination exactly once, first-declared parameter slowest: the assumed contract of itertools.product.)"""
    P = self._parameters
    return (is_fresh(result, old)
            and all(rec_has(result[i], k) for i in range(len(result)) for k in P)
            and all((single(P[k]) and same(rec_get(result[i], k), P[k]))
                    or (not single(P[k]) and index_of(items_of(P[k]), rec_get(result[i], k)) < len(items_of(P[k])))
                    for i in range(len(result)) for k in P)
            and all(implies(rec_has(result[i], k), k in P) for i in range(len(result)) for k in all_names(P))
            and implies(len(P) == 0, len(result) == 1)
            and implies(any(not single(P[k]) and len(items_of(P[k])) == 0 for k in P), len(result) == 0)
            and implies(all(single(P[k]) or len(items_of(P[k])) >= 1 for k in P), len(result) >= 1))


def all_names(P):
    return P


contract('Batching.ParameterList.build',
         params={'self': 'ref:ParameterList'}, returns='list[any]',
         ensures={'C14': [build_post]},
         modifies=['new:list[any]', 'new:list[list[tuple[str,any]]]', 'new:list[tuple[str,any]]'],
         locals={'param_list': 'list[list[tuple[str,any]]]', 'args': 'list[tuple[str,any]]'},
         roles={'param_list': 'emptylist#0'},
         loops={0: dict(invariant=[(build_inv, ['C14'])], index='p',
                        modifies=['new:list[tuple[str,any]]', 'param_list'])},
         native=False, props=['C14'])
from pyvc.specs import agg_min, agg_max, agg_mean, agg_sum, agg_variance, now   # noqa: E402
from contracts.core import SM_rep, freq_ok, running   # noqa: E402


# ------------------------------------------------------------------------------------------------ C16 scoring
def score_post(records, mode, result):
    """mode -> aggregate: minimum, maximum, mean, sum, sample variance."""
    return (implies(mode == 0, result == agg_min(records)) and implies(mode == 1, result == agg_max(records))
            and implies(mode == 2 or mode == 3, result == agg_mean(records))
            and implies(mode == 4 or mode == 5, result == agg_sum(records))
            and implies(mode == 6 or mode == 7, result == agg_variance(records)))


def score_bad_mode(records, mode, old):
    return mode < 0 or mode > 7


contract('Batching._score_model_for_search',
         params={'records': 'list[any]', 'mode': 'int'}, returns='num',
         ensures={'C16': [score_post]},
         raises={'ValueError': dict(when=score_bad_mode)},
         modes=['real'], pure=False, native=False, props=['C16'])


def aggregate(records, mode):
    return (agg_min(records) if mode == 0 else agg_max(records) if mode == 1
            else agg_mean(records) if mode <= 3 else agg_sum(records) if mode <= 5 else agg_variance(records))


def score_of(r):
    return r['score']


def better(a, b, is_min):
    return a < b if is_min else a > b


def search_requires(model_cls, parameters, score_func, processes, max_timesteps, repetitions, mode):
    P = parameters._parameters
    return (0 <= mode and mode <= 7 and processes == 1
            and all(single(P[k]) or len(items_of(P[k])) >= 1 for k in P))


def search_best_post(model_cls, parameters, score_func, processes, max_timesteps, repetitions, mode, result, old):
    """The first combination whose aggregate is the minimum (even modes) / maximum (odd modes) is returned as best;
    every combination carries the aggregate prescribed by the mode."""
    best = result[0]
    R = result[1]
    k = index_of(R, best)
    return (len(R) >= 1 and k < len(R)
            and all('score' in R[j] and 'records' in R[j]
                    and score_of(R[j]) == aggregate(R[j]['records'], mode) for j in range(len(R)))
            and all(not better(score_of(R[j]), score_of(best), mode % 2 == 0) for j in range(len(R)))
            and all(better(score_of(best), score_of(R[j]), mode % 2 == 0) for j in range(0, k)))


def run_for_search_post(model_cls, score_func, repetitions, parameters, max_timesteps, result, old):
    """The same parameter dictionary comes back with the individual scores added; nothing else in it is touched."""
    P0 = old.parameters
    return (same_obj(result, parameters) and 'records' in parameters
            and len(parameters['records']) == max(repetitions, 0)
            and all(k in parameters and (k == 'records' or same(parameters[k], P0[k])) for k in P0)
            and all(k in P0 or k == 'records' for k in parameters))


contract('Batching._run_model_for_search',
         params={'model_cls': 'any', 'score_func': 'any', 'repetitions': 'int', 'parameters': 'dict[str,any]',
                 'max_timesteps': 'int'}, returns='dict[str,any]',
         ensures={'C16': [run_for_search_post]},
         modifies=['parameters', 'new:list[any]'], kind='abstract', native=False, props=['C16'],
         assumes=['_run_model_for_search is used through its contract in grid_search; its own body (model runs of '
                  'user code) is checked natively / under C15'])


# ---- the body of _run_model_for_search itself (grid_search sees it through the abstract contract above)
USER_RUN_MODS = ['fieldall:timestep', 'new:list[ref:System]', 'fieldall:_status', 'store:dict[str,ref:Agent]',
                 'store:dict[cls,ref:Component]', 'store:dict[cls,list[ref:Component]]', 'store:list[ref:Component]',
                 'fieldall:tag', 'ghost:runs', 'ghost:last', 'store:dict[str,ref:System]', 'store:list[ref:System]']


def search_site_step(model_cls, score_func, repetitions, parameters, max_timesteps, model):
    """No repetition advances past the step limit or past its own completion."""
    return running(model) and model.systems.timestep < max_timesteps


def search_site_scored(model_cls, score_func, repetitions, parameters, max_timesteps, model):
    """A repetition is scored only once it has completed or used up the *whole* step limit - every repetition anew."""
    return not running(model) or model.systems.timestep >= max_timesteps


def search_reps_inv(model_cls, score_func, repetitions, parameters, max_timesteps, old, _, records):
    return (0 <= _ and _ <= max(repetitions, 0) and len(records) == _ and is_fresh(records, old)
            and all(k in parameters and same(parameters[k], old.parameters[k]) for k in old.parameters)
            and all(k in old.parameters for k in parameters))


def search_run_inv(model_cls, score_func, repetitions, parameters, max_timesteps, old, records, _):
    return (is_fresh(records, old) and len(records) == _
            and all(k in parameters and same(parameters[k], old.parameters[k]) for k in old.parameters)
            and all(k in old.parameters for k in parameters))


contract('Batching._run_model_for_search', variant='body',
         params={'model_cls': 'any', 'score_func': 'any', 'repetitions': 'int', 'parameters': 'dict[str,any]',
                 'max_timesteps': 'int'}, returns='dict[str,any]',
         ensures={'C16': [run_for_search_post]},
         modifies=['parameters', 'new:list[any]', 'ghost:n_built'] + USER_RUN_MODS,
         locals={'model': 'ref:Model', 'records': 'list[any]'}, roles={'records': 'emptylist#0'},
         sites={'execute#*': dict(**{'assert': [search_site_step]}),
                'score_func#*': dict(**{'assert': [search_site_scored]})},
         loops={0: dict(invariant=[(search_reps_inv, ['C16'])], index='_', modifies=['records', 'new:list[any]', 'ghost:n_built'] + USER_RUN_MODS),
                1: dict(invariant=[(search_run_inv, ['C16'])], modifies=USER_RUN_MODS)},
         assume_callee_pre=['Core.Model.execute'], native=False, props=['C16'],
         assumes=['model_cls(**parameters) and score_func(model) are user code; a fresh model is well formed'])


def search_serial_inv(parameters, mode, old, i, simulation_kwargs, results):
    return (0 <= i and i <= len(simulation_kwargs) and len(results) == i and is_fresh(results, old)
            and all(same_obj(results[j], simulation_kwargs[j]) and 'records' in results[j] for j in range(0, i)))


def search_select_inv(mode, old, i, results, index, target_score, is_min):
    return (0 <= i and i <= len(results) and -1 <= index and index < i
            and is_min == (mode % 2 == 0)
            and all('score' in results[j] and 'records' in results[j]
                    and score_of(results[j]) == aggregate(results[j]['records'], mode) for j in range(0, i))
            and all('records' in results[j] for j in range(i, len(results)))
            and implies(index >= 0, target_score == score_of(results[index])
                        and all(not better(score_of(results[j]), target_score, is_min) for j in range(0, i))
                        and all(better(target_score, score_of(results[j]), is_min) for j in range(0, index)))
            and implies(index == -1, i == 0))


contract('Batching.grid_search',
         params={'model_cls': 'any', 'parameters': 'ref:ParameterList', 'score_func': 'any', 'processes': 'int',
                 'max_timesteps': 'int', 'repetitions': 'int', 'mode': 'int'},
         returns='tuple[dict[str,any],list[dict[str,any]]]',
         requires=[search_requires],
         ensures={'C16': [search_best_post]},
         modifies=['new:list[any]', 'new:list[dict[str,any]]', 'store:dict[str,any]',
                   'new:list[list[tuple[str,any]]]', 'new:list[tuple[str,any]]'],
         locals={'results': 'list[dict[str,any]]', 'target_score': 'num'}, roles={'results': 'emptylist#0'},
         loops={0: dict(invariant=[(search_serial_inv, ['C16'])], index='i',
                        modifies=['results', 'store:dict[str,any]', 'new:list[any]']),
                2: dict(invariant=[(search_select_inv, ['C16'])], index='i', modifies=['store:dict[str,any]'])},
         modes=['real'], native=False, props=['C16'])
from pyvc.specs import ghost   # noqa: E402
from contracts.core import model_exec_requires   # noqa: E402

# ------------------------------------------------------------------------------------------------ C15 batch runs
REG.ghosts['n_runs'] = 'int'            # executions started by batch_run so far (ghost execution log)
REG.ghosts['n_built'] = 'int'           # models built inside one execution
REG.ghosts['run_arg'] = 'map[any]'      # log: argument dictionary of execution k
REG.ghosts['run_res'] = 'map[any]'      # log: result of execution k
REG.ghosts['iter_pos'] = 'map[int]'     # cursor of an iterator modelled as the list of what it yields (Pool.imap*)


def build_model_post(model_cls, kwargs, result):
    return not is_none(result)


contract('Batching._build_model_from_kwargs', params={'model_cls': 'any', 'kwargs': 'any'}, returns='ref:Model',
         ensures={'C15': [build_model_post]}, kind='abstract', native=False, props=['C15'],
         assumes=['model_cls(**kwargs) (user code) returns a well-formed Model built from kwargs only'])


def build_model_impl_post(model_cls, kwargs, result):
    """The helper itself: the model is model_cls called with exactly the given keyword arguments - nothing dropped,
    renamed or added (a seed passed through **kwargs reaches the model: C07)."""
    return result is model_cls(**kwargs)


contract('Batching._build_model_from_kwargs', variant='impl', params={'model_cls': 'any', 'kwargs': 'any'}, returns='any',
         ensures={'C15': [build_model_impl_post], 'C16': [build_model_impl_post], 'C07': [build_model_impl_post]},
         modifies=['store:*'], native=False, props=['C15', 'C16', 'C07'],
         assumes=['model_cls(**kwargs) is user code: an uninterpreted function of the class and the keyword arguments'])


def site_build(model_cls, kwargs, collectors, max_timesteps, arg):
    """Exactly one fresh model per execution, built from the run's own keyword arguments only."""
    return ghost().n_built == 0 and same(arg, model_cls)


def site_step(model_cls, kwargs, collectors, max_timesteps, model):
    """C15: no execution advances past the step limit or past its own completion."""
    return running(model) and model.systems.timestep < max_timesteps


def run_batch_inv(model_cls, kwargs, collectors, max_timesteps, model):
    return ghost().n_built == 1


def run_batch_post_none(model_cls, kwargs, collectors, max_timesteps, result, model):
    return is_none(result) and ghost().n_built == 1


contract('Batching._run_model_for_batch', variant='nocollector',
         params={'model_cls': 'any', 'kwargs': 'any', 'collectors': 'none', 'max_timesteps': 'int'},
         ensures={'C15': [run_batch_post_none]},
         modifies=['ghost:n_built', 'store:dict[str,ref:System]', 'store:list[ref:System]', 'fieldall:timestep',
                   'new:list[ref:System]'] + ['fieldall:_status', 'store:dict[str,ref:Agent]',
                                              'store:dict[cls,ref:Component]', 'store:dict[cls,list[ref:Component]]',
                                              'store:list[ref:Component]', 'fieldall:tag', 'ghost:runs', 'ghost:last'],
         locals={'model': 'ref:Model'},
         ghost_init='batch_init',
         sites={'_build_model_from_kwargs#*': dict(**{'assert': [site_build]}, effect='model_built'),
                'execute#*': dict(**{'assert': [site_step]})},
         loops={0: dict(invariant=[(run_batch_inv, ['C15'])], modifies=[
             'fieldall:timestep', 'new:list[ref:System]', 'fieldall:_status', 'store:dict[str,ref:Agent]',
             'store:dict[cls,ref:Component]', 'store:dict[cls,list[ref:Component]]', 'store:list[ref:Component]',
             'fieldall:tag', 'ghost:runs', 'ghost:last'])},
         assume_callee_pre=['Core.Model.execute'], native=False, props=['C15'])


def run_batch_post_str(model_cls, kwargs, collectors, max_timesteps, result, model):
    """The result is the records list of that execution's own collector."""
    S = model.systems.systems
    return ghost().n_built == 1 and collectors in S and same_obj(result, S[collectors].records)


contract('Batching._run_model_for_batch', variant='collector',
         params={'model_cls': 'any', 'kwargs': 'any', 'collectors': 'str', 'max_timesteps': 'int'},
         returns='list[any]',
         ensures={'C15': [run_batch_post_str]},
         raises={'AttributeError': dict(when=None, modifies=['store:*'])},
         implicit=['AttributeError'],
         modifies=['ghost:n_built', 'fieldall:timestep', 'new:list[ref:System]', 'fieldall:_status',
                   'store:dict[str,ref:Agent]', 'store:dict[cls,ref:Component]', 'store:dict[cls,list[ref:Component]]',
                   'store:list[ref:Component]', 'fieldall:tag', 'ghost:runs', 'ghost:last'],
         locals={'model': 'ref:Model'},
         ghost_init='batch_init',
         sites={'_build_model_from_kwargs#*': dict(**{'assert': [site_build]}, effect='model_built'),
                'execute#*': dict(**{'assert': [site_step]})},
         loops={0: dict(invariant=[(run_batch_inv, ['C15'])], modifies=[
             'fieldall:timestep', 'new:list[ref:System]', 'fieldall:_status', 'store:dict[str,ref:Agent]',
             'store:dict[cls,ref:Component]', 'store:dict[cls,list[ref:Component]]', 'store:list[ref:Component]',
             'fieldall:tag', 'ghost:runs', 'ghost:last'])},
         assume_callee_pre=['Core.Model.execute'], native=False, props=['C15'])


def run_abstract_post(model_cls, kwargs, collectors, max_timesteps, result):
    """Callers' view of one execution (ghost log written by the effect `run_logged`)."""
    return implies(is_none(collectors), is_none(result)) and implies(not is_none(collectors), not is_none(result))


contract('Batching._run_model_for_batch', variant='batch',
         params={'model_cls': 'any', 'kwargs': 'any', 'collectors': 'any', 'max_timesteps': 'int'}, returns='any',
         ensures={'C15': [run_abstract_post]}, kind='abstract',
         raises={'Exception': dict(when=None, modifies=['store:*'])},
         modifies=[], effects='run_logged',
         assumes=['one execution as seen by batch_run: returns None iff no collector was requested (its own body is '
                  'verified under the variants nocollector / collector); a failing execution raises'])


def batch_requires(model_cls, parameters, collectors, processes, max_timesteps, repetitions):
    return repetitions >= 0


def batch_serial_inv(collectors, old, i, skwargs_with_repetition, results):
    """Executions 0 .. i-1 done, one log entry each, in product x repetition order; one result per execution."""
    K = skwargs_with_repetition
    return (0 <= i and i <= len(K) and ghost().n_runs == i and is_fresh(results, old)
            and all(same(ghost().run_arg[j], K[j]) for j in range(0, i))
            and implies(is_none(collectors), len(results) == 0)
            and implies(not is_none(collectors),
                        len(results) == i and all(same(results[j], ghost().run_res[j]) for j in range(0, i))))


def batch_par_inv(collectors, old, i, skwargs_with_repetition, results, pending):
    K = skwargs_with_repetition
    outs = pending
    return (0 <= i and i <= len(outs) and len(outs) == len(K) and is_fresh(results, old) and ghost().n_runs == len(K)
            and ghost().iter_pos[pending] == i and is_fresh(pending, old) and pending is not results
            and all(same(ghost().run_arg[j], K[j]) for j in range(0, len(K)))
            and implies(is_none(collectors), len(results) == 0)
            and implies(not is_none(collectors), len(results) == i))


def batch_post(model_cls, parameters, collectors, processes, max_timesteps, repetitions, result, old,
               skwargs_with_repetition, simulation_kwargs):
    """Every combination x repetition executed exactly once (ghost log), exactly one result per execution (none when
    no collector is requested); with one process the results follow product x repetition order."""
    K = skwargs_with_repetition
    return (is_fresh(result, old) and ghost().n_runs == len(K)
            and len(K) == (len(simulation_kwargs) * repetitions if repetitions > 0 else 0)
            and all(same(ghost().run_arg[j], K[j]) for j in range(0, len(K)))
            and implies(is_none(collectors), len(result) == 0)
            and implies(not is_none(collectors), len(result) == len(K))
            and implies(processes == 1 and not is_none(collectors),
                        all(same(result[j], ghost().run_res[j]) for j in range(0, len(K)))))


def bad_collectors(model_cls, parameters, collectors, processes, max_timesteps, repetitions, old):
    return False


BATCH_MODS = ['new:list[any]', 'new:list[list[tuple[str,any]]]', 'new:list[tuple[str,any]]', 'ghost:n_runs',
              'ghost:run_arg', 'ghost:run_res', 'new:obj:Pool']

contract('Batching.batch_run',
         params={'model_cls': 'any', 'parameters': 'ref:ParameterList', 'collectors': 'any', 'processes': 'int',
                 'max_timesteps': 'int', 'repetitions': 'int'},
         returns='list[any]',
         requires=[batch_requires],
         ensures={'C15': [batch_post]},
         raises={'Exception': dict(when=None, modifies=['store:*']),
                 'AttributeError': dict(when=None, modifies=['store:*'])},
         modifies=BATCH_MODS,
         locals={'results': 'list[any]'}, roles={'results': 'emptylist#0'},
         ghost_init='batch_init', view='batch',
         loops={0: dict(invariant=[(batch_serial_inv, ['C15'])], index='i', modifies=['results'] + BATCH_MODS),
                1: dict(invariant=[(batch_par_inv, ['C15'])], index='i', modifies=['results', 'ghost:iter_pos'])},
         cases=[dict(name='nocollector', params={'collectors': 'none'}), dict(name='collector', params={'collectors': 'str'})],
         native=False, props=['C15'])
