"""Import every sidecar module (registers contracts in pyvc.specs.REG)."""
from . import core        # noqa: F401
