"""Import every sidecar module (registers contracts in pyvc.specs.REG)."""
from . import core        # noqa: F401
from . import environments  # noqa: F401
from . import tags  # noqa: F401
from . import batching  # noqa: F401
from . import collectors  # noqa: F401
from . import decode  # noqa: F401
