"""Checked contracts for ECAgent/Core.py.  Predicates are executable Python (symbolic + concrete reading)."""
from pyvc.specs import contract, fields_of, lemma, implies, iff, index_of, order_of, key_at, is_fresh, \
    same_elems, same_dict, typeof, is_none, same, same_obj, rng_seed

# ------------------------------------------------------------------------------------------------ field types
fields_of('Model', environment='ref:Environment', systems='ref:SystemManager', random='ref:Random',
          logger='ref:Logger', _status='int')
fields_of('Component', agent='ref:Agent', model='ref:Model')
fields_of('_MetaAgent', _id='str', _components='dict[cls,ref:Component]', _tag='int')
fields_of('Agent', id='str', model='ref:Model', components='dict[cls,ref:Component]', tag='int')
fields_of('System', id='str', model='ref:Model', priority='int', frequency='int', start='int', end='int')
fields_of('SystemManager', timestep='int', systems='dict[str,ref:System]', execution_queue='list[ref:System]',
          component_pools='dict[cls,list[ref:Component]]', model='ref:Model')
fields_of('Environment', agents='dict[str,ref:Agent]')


from pyvc.specs import REG, ghost
REG.ghosts['runs'] = 'map[int]'          # per-call monitor: how often a system ran in this execute_systems call
REG.ghosts['last'] = 'ref?:System'       # per-call monitor: the system that ran last

# which properties own the frame ("nothing else written") obligations of each field / container store
REG.frame_tags.update({
    'start': ['C02'], 'end': ['C02'], 'frequency': ['C02'], 'priority': ['C01', 'C05'],
    'id': ['C01', 'C04', 'C05'], 'timestep': ['C02', 'C06'], '_status': ['C06'],
    'dict[str,ref:System]': ['C01', 'C05'], 'list[ref:System]': ['C01', 'C05'],
    'dict[str,ref:Agent]': ['C04', 'C13', 'C03'], 'dict[cls,ref:Component]': ['C03', 'C04', 'C20'],
    'dict[cls,list[ref:Component]]': ['C03', 'C04'], 'list[ref:Component]': ['C03', 'C04'],
    'tag': ['C13', 'C20'], '_tag': ['C20'], '_components': ['C20'], 'components': ['C03', 'C04', 'C20'],
    'agents': ['C04'], 'x': ['C08'], 'y': ['C08'], 'z': ['C08'],
    'systems': ['C01', 'C03'], 'execution_queue': ['C01'], 'component_pools': ['C03'],
})

# ------------------------------------------------------------------------------------------------ C01: queue
def before(a, b, S):
    """a is scheduled before b: higher priority, or equal priority and registered earlier."""
    return a.priority > b.priority or (a.priority == b.priority and order_of(S, a.id) < order_of(S, b.id))


def SM_rep(self):
    """Representation invariant of SystemManager (R2, R3, R4 of DESIGN 5/C01; R1 follows from R4)."""
    Q = self.execution_queue
    S = self.systems
    return (len(Q) == len(S)
            and all(Q[i].id in S and S[Q[i].id] is Q[i] for i in range(len(Q)))
            and all(index_of(Q, S[k]) < len(Q) and S[k].id == k for k in S)
            and all(before(Q[i], Q[j], S) for i in range(len(Q)) for j in range(i + 1, len(Q))))


def add_system_post(self, s, old):
    Q = self.execution_queue
    Q0 = old.self.execution_queue
    S = self.systems
    S0 = old.self.systems
    k = index_of(Q, s)
    return (len(Q) == len(Q0) + 1 and k <= len(Q0)
            and all(Q[j] is Q0[j] and Q0[j].priority >= s.priority for j in range(0, k))
            and all(Q[j + 1] is Q0[j] for j in range(k, len(Q0)))
            and (k >= len(Q0) or Q0[k].priority < s.priority)
            and s.id in S and S[s.id] is s and len(S) == len(S0) + 1
            and all(k2 in S and S[k2] is S0[k2] and order_of(S, k2) < order_of(S, s.id) for k2 in S0)
            and all(implies(order_of(S0, a) < order_of(S0, b), order_of(S, a) < order_of(S, b))
                    for a in S0 for b in S0)
            and all(k2 in S0 or k2 == s.id for k2 in S))


def add_system_dup(self, s, old):
    return s.id in old.self.systems


def add_system_inv(self, s, i):
    Q = self.execution_queue
    return (0 <= i and i <= len(Q)
            and all(Q[j].priority >= s.priority for j in range(0, i)))


contract('Core.SystemManager.add_system',
         params={'self': 'ref:SystemManager', 's': 'ref:System'},
         requires=[SM_rep],
         ensures={'C01': [add_system_post, SM_rep]},
         raises={'KeyError': dict(when=add_system_dup)},
         modifies=['self.systems', 'self.execution_queue'],
         loops={0: dict(invariant=[add_system_inv], index='i', modifies=[])},
         props=['C01'])


def remove_system_post(self, s_id, old):
    Q = self.execution_queue
    Q0 = old.self.execution_queue
    S = self.systems
    S0 = old.self.systems
    k = index_of(Q0, S0[s_id])
    return (len(Q) == len(Q0) - 1 and k < len(Q0)
            and all(Q[j] is Q0[j] for j in range(0, k))
            and all(Q[j] is Q0[j + 1] for j in range(k, len(Q)))
            and s_id not in S and len(S) == len(S0) - 1
            and all(k2 == s_id or (k2 in S and S[k2] is S0[k2]) for k2 in S0)
            and all(implies(order_of(S0, a) < order_of(S0, b), order_of(S, a) < order_of(S, b))
                    for a in S for b in S)
            and all(k2 in S0 for k2 in S))


def remove_system_unknown(self, s_id, old):
    return s_id not in old.self.systems


contract('Core.SystemManager.remove_system',
         params={'self': 'ref:SystemManager', 's_id': 'str'},
         requires=[SM_rep],
         ensures={'C01': [remove_system_post, SM_rep]},
         raises={'SystemNotFoundError': dict(when=remove_system_unknown)},
         modifies=['self.systems', 'self.execution_queue'],
         props=['C01'])


def clean_up_requires(self):
    return SM_rep(self.model.systems)


def clean_up_post(self, old):
    """System.clean_up(): the system leaves the scheduler exactly as remove_system(self.id) makes it leave."""
    s_id = self.id
    Q = self.model.systems.execution_queue
    Q0 = old.self.model.systems.execution_queue
    S = self.model.systems.systems
    S0 = old.self.model.systems.systems
    k = index_of(Q0, S0[s_id])
    return (len(Q) == len(Q0) - 1 and k < len(Q0)
            and all(Q[j] is Q0[j] for j in range(0, k))
            and all(Q[j] is Q0[j + 1] for j in range(k, len(Q)))
            and s_id not in S and len(S) == len(S0) - 1
            and all(k2 == s_id or (k2 in S and S[k2] is S0[k2]) for k2 in S0)
            and all(implies(order_of(S0, a) < order_of(S0, b), order_of(S, a) < order_of(S, b))
                    for a in S for b in S)
            and all(k2 in S0 for k2 in S)
            and SM_rep(self.model.systems))


def clean_up_unknown(self, old):
    return self.id not in old.self.model.systems.systems


contract('Core.System.clean_up',
         params={'self': 'ref:System'},
         requires=[clean_up_requires],
         ensures={'C01': [clean_up_post], 'C05': [clean_up_post]},
         raises={'SystemNotFoundError': dict(when=clean_up_unknown)},
         modifies=['self.model.systems.systems', 'self.model.systems.execution_queue'],
         native=False, props=['C01', 'C05'])


def sm_init_post(self, model):
    return (self.timestep == 0 and len(self.systems) == 0 and len(self.execution_queue) == 0
            and len(self.component_pools) == 0 and self.model is model)


contract('Core.SystemManager.__init__',
         params={'self': 'ref:SystemManager', 'model': 'ref:Model'},
         ensures={'C01': [sm_init_post, SM_rep], 'C02': [sm_init_post], 'C03': [sm_init_post]},
         modifies=['field:self.timestep', 'field:self.systems', 'field:self.execution_queue',
                   'field:self.component_pools', 'field:self.model',
                   'new:dict[str,ref:System]', 'new:list[ref:System]', 'new:dict[cls,list[ref:Component]]'],
         locals={},
         props=['C01'])


def system_init_post(self, id, model, priority, frequency, start, end):
    return (self.id == id and self.model is model and self.priority == priority
            and self.frequency == frequency and self.start == start and self.end == end)


contract('Core.System.__init__',
         params={'self': 'ref:System', 'id': 'str', 'model': 'ref:Model', 'priority': 'int', 'frequency': 'int',
                 'start': 'int', 'end': 'int'},
         ensures={'C01': [system_init_post], 'C02': [system_init_post]},
         modifies=['self.id', 'self.model', 'self.priority', 'self.frequency', 'self.start', 'self.end'],
         use='inline', props=['C01', 'C02'])


# ------------------------------------------------------------------------------------------------ scheduler
def due(x, t):
    """C02 statement: start <= t <= end and (t - start) is a multiple of frequency."""
    return x.start <= t and t <= x.end and (t - x.start) % x.frequency == 0


def running(m):
    return m._status < 1


def freq_ok(self):
    Q = self.execution_queue
    S = self.systems
    return all(Q[i].frequency >= 1 for i in range(len(Q))) and all(S[k].frequency >= 1 for k in S)


def exec_post_running(self, throw_error, old):
    """Model running at entry: the step advances time by exactly one."""
    return implies(running(old.self.model), self.timestep == old.self.timestep + 1)


def exec_post_not_running(self, throw_error, old):
    return implies(not running(old.self.model), self.timestep == old.self.timestep and not running(self.model))


def exec_post_runs(self, throw_error, old):
    """Every registered system ran at most once, only if due; exactly once if due and the model stayed running."""
    Q = self.execution_queue
    t0 = old.self.timestep
    return (all(ghost().runs[Q[j]] == 0 or (ghost().runs[Q[j]] == 1 and due(Q[j], t0)) for j in range(len(Q)))
            and implies(running(self.model),
                        all(ghost().runs[Q[j]] == (1 if due(Q[j], t0) else 0) for j in range(len(Q))))
            and implies(not running(old.self.model), all(ghost().runs[Q[j]] == 0 for j in range(len(Q)))))


def exec_complete_err(self, throw_error, old):
    return throw_error and not running(old.self.model)


def exec_inv_basic(self, throw_error, old, i, snap):
    return (0 <= i and i <= len(self.execution_queue) and self.timestep == old.self.timestep
            and running(old.self.model) and same_elems(snap, self.execution_queue))


def exec_inv_runs(self, throw_error, old, i):
    Q = self.execution_queue
    t0 = old.self.timestep
    return (all(ghost().runs[Q[j]] == 0 or (ghost().runs[Q[j]] == 1 and due(Q[j], t0)) for j in range(0, i))
            and implies(running(self.model),
                        all(ghost().runs[Q[j]] == (1 if due(Q[j], t0) else 0) for j in range(0, i)))
            and all(ghost().runs[Q[j]] == 0 for j in range(i, len(Q))))


def exec_inv_last(self, throw_error, old, i):
    return is_none(ghost().last) or index_of(self.execution_queue, ghost().last) < i


USER_CODE_MODIFIES = ['fieldall:_status', 'store:dict[str,ref:Agent]', 'store:dict[cls,ref:Component]',
                      'store:dict[cls,list[ref:Component]]', 'store:list[ref:Component]', 'fieldall:tag']
SCHED_GHOSTS = ['ghost:runs', 'ghost:last']

contract('Core.SystemManager.execute_systems',
         params={'self': 'ref:SystemManager', 'throw_error': 'bool'},
         requires=[SM_rep, freq_ok],
         ensures={'C02': [exec_post_running, exec_post_not_running, exec_post_runs],
                  'C06': [exec_post_running, exec_post_not_running]},
         raises={'ModelCompleteError': dict(when=exec_complete_err, props=['C02', 'C06'])},
         modifies=['self.timestep', 'new:list[ref:System]'] + USER_CODE_MODIFIES + SCHED_GHOSTS,
         loops={0: dict(invariant=[(exec_inv_basic, ['C01', 'C02', 'C06']), (exec_inv_runs, ['C02']),
                                   (exec_inv_last, ['C01'])],
                        index='i', iter_name='snap', modifies=USER_CODE_MODIFIES + SCHED_GHOSTS,
                        props=['C01', 'C02', 'C06'])},
         ghost_init='sched_ghost_init',
         props=['C01', 'C02', 'C06'])


# ---- assumed contract of user code (abstract): System.execute, static view (system set not edited mid-step)
def mon_order(self, caller):
    """C01: the system about to run comes after the previous one in (priority desc, registration asc)."""
    return is_none(ghost().last) or before(ghost().last, self, caller.self.systems)


def mon_due(self, caller):
    """C02: only due systems run, and none runs twice within one step."""
    return due(self, caller.self.timestep) and ghost().runs[self] == 0


def mon_running(self, caller):
    """C06: nothing runs once the model is complete."""
    return running(caller.self.model)


contract('Core.System.execute',
         params={'self': 'ref:System'},
         kind='abstract',
         monitor={'C01': [mon_order], 'C02': [mon_due], 'C06': [mon_running]},
         modifies=USER_CODE_MODIFIES,
         effects='system_execute',
         assumes=['System.execute is user code: assumed frame of DESIGN Appendix B (static view)'])


# ------------------------------------------------------------------------------------------------ Model
def model_init_post(self, seed, logger):
    return (running(self) and self.systems.model is self and self.environment.model is self
            and self.systems.timestep == 0 and len(self.systems.systems) == 0
            and len(self.systems.execution_queue) == 0 and len(self.systems.component_pools) == 0
            and len(self.environment.agents) == 0 and len(self.environment.components) == 0)


def model_rng_post(self, seed, logger, old):
    """C07: the model owns a fresh generator seeded with exactly the given seed (also 0)."""
    return is_fresh(self.random, old) and same(rng_seed(self.random), seed)


contract('Core.Model.__init__',
         params={'self': 'ref:Model', 'seed': 'any', 'logger': 'ref?:Logger'},
         ensures={'C06': [model_init_post], 'C03': [model_init_post], 'C02': [model_init_post],
                  'C07': [model_rng_post]},
         modifies=['self.environment', 'self.systems', 'self.random', 'self.logger', 'self._status',
                   'new:obj:Environment', 'new:obj:SystemManager', 'new:obj:Random', 'new:obj:Logger',
                   'new:dict[str,ref:System]', 'new:list[ref:System]', 'new:dict[cls,list[ref:Component]]',
                   'new:dict[str,ref:Agent]', 'new:dict[cls,ref:Component]'],
         props=['C06'])


def complete_post(self):
    return not running(self) and self._status == 1


contract('Core.Model.complete', params={'self': 'ref:Model'}, ensures={'C06': [complete_post]},
         modifies=['self._status'], use='inline', props=['C06'])


def is_running_post(self, result):
    return result == running(self)


contract('Core.Model.is_running', params={'self': 'ref:Model'}, returns='bool',
         ensures={'C06': [is_running_post]}, use='inline', props=['C06'])
contract('Core.Model.__bool__', params={'self': 'ref:Model'}, returns='bool',
         ensures={'C06': [is_running_post]}, use='inline', props=['C06'])


def getattr_timestep_post(self, item, result):
    return result == self.systems.timestep


def getattr_other(self, item, old):
    return item != 'timestep'


contract('Core.Model.__getattr__', params={'self': 'ref:Model', 'item': 'str'}, returns='int',
         ensures={'C02': [getattr_timestep_post]},
         raises={'AttributeError': dict(when=getattr_other)},
         use='inline', props=['C02'])


def model_exec_requires(self):
    return SM_rep(self.systems) and freq_ok(self.systems) and self.systems.model is self


def model_exec_post(self, n, old):
    t0 = old.self.systems.timestep
    return (self.systems.timestep >= t0 and self.systems.timestep <= t0 + n
            and implies(running(self), self.systems.timestep == t0 + n))


def model_exec_post_complete(self, n, old):
    """C06: a completed model is left untouched by any advance request."""
    return implies(not running(old.self), self.systems.timestep == old.self.systems.timestep and not running(self))


def model_exec_bad_value(self, n, old):
    return n <= 0


def model_exec_inv(self, n, old, _):
    t0 = old.self.systems.timestep
    return (0 <= _ and _ <= n and self.systems.timestep >= t0 and self.systems.timestep <= t0 + _
            and implies(running(self), self.systems.timestep == t0 + _)
            and implies(not running(old.self), self.systems.timestep == t0)
            and implies(not running(old.self), not running(self))
            and SM_rep(self.systems) and freq_ok(self.systems) and self.systems.model is self)


contract('Core.Model.execute',
         params={'self': 'ref:Model', 'n': 'int'},
         requires=[model_exec_requires],
         ensures={'C02': [model_exec_post], 'C06': [model_exec_post_complete]},
         raises={'ValueError': dict(when=model_exec_bad_value)},
         modifies=['self.systems.timestep', 'new:list[ref:System]'] + USER_CODE_MODIFIES + SCHED_GHOSTS,
         loops={0: dict(invariant=[(model_exec_inv, ['C02', 'C06'])], index='_',
                        modifies=['self.systems.timestep', 'new:list[ref:System]'] + USER_CODE_MODIFIES + SCHED_GHOSTS)},
         cases=[dict(name='int', params={'n': 'int'})],
         props=['C02', 'C06'])


def model_exec_type_requires(self, n):
    return typeof(n) is not int and typeof(n) is not bool


contract('Core.Model.execute', variant='nonint',
         params={'self': 'ref:Model', 'n': 'any'},
         requires=[model_exec_type_requires],
         ensures={},
         raises={'TypeError': dict(when=None, always=True)},
         modifies=[],
         notes='n that is not an instance of int (float, str, None, object): must raise TypeError, nothing changed',
         props=['C02'])


# ------------------------------------------------------------------------------------------------ Agent
def has_all(a, ts):
    """Agent a carries every component type of the template ts (empty template: True)."""
    return all(ts[j] in a.components for j in range(len(ts)))


def has_component_post(self, args, result):
    return result == has_all(self, args)


def has_component_inv(self, args, i):
    return 0 <= i and i <= len(args) and all(args[j] in self.components for j in range(0, i))


contract('Core.Agent.has_component',
         params={'self': 'ref:Agent', '*args': 'list[cls]'}, returns='bool',
         ensures={'C13': [has_component_post]},
         loops={0: dict(invariant=[has_component_inv], index='i', modifies=[])},
         pure=True, props=['C13'])


def Env_rep(self):
    """Every resident agent is stored under its own id."""
    return all(self.agents[k].id == k for k in self.agents)


def matches(a, ts, tag):
    return has_all(a, ts) and (tag is None or a.tag == tag)


def get_agents_post(self, args, tag, result, old):
    A = self.agents
    return (is_fresh(result, old)
            and all(result[i].id in A and A[result[i].id] is result[i] and matches(result[i], args, tag)
                    for i in range(len(result)))
            and all(order_of(A, result[i].id) < order_of(A, result[j].id)
                    for i in range(len(result)) for j in range(i + 1, len(result)))
            and all(index_of(result, A[k]) < len(result) for k in A if matches(A[k], args, tag)))


contract('Core.Environment.get_agents',
         params={'self': 'ref:Environment', '*args': 'list[cls]', 'tag': 'int'}, returns='list[ref:Agent]',
         requires=[Env_rep],
         ensures={'C13': [get_agents_post], 'C04': [get_agents_post]},
         modifies=['new:list[ref:Agent]'],
         locals={'matching_agents': 'list[ref:Agent]'}, roles={'matching_agents': 'emptylist#0'},
         cases=[dict(name='tag', params={'tag': 'int'}), dict(name='notag', params={'tag': 'none'})],
         props=['C13', 'C04'])


# ------------------------------------------------------------------------------------------------ dict views
def dict_added(D, D0, k, v):
    """D is D0 with the new key k -> v appended last; every other entry and the relative order unchanged."""
    return (k in D and same(D[k], v) and len(D) == len(D0) + 1
            and all(j in D and same(D[j], D0[j]) and order_of(D, j) < order_of(D, k) for j in D0)
            and all(implies(order_of(D0, a) < order_of(D0, b), order_of(D, a) < order_of(D, b))
                    for a in D0 for b in D0)
            and all(j in D0 or j == k for j in D))


def dict_removed(D, D0, k):
    """D is D0 without key k; every other entry and the relative order unchanged."""
    return (k not in D and len(D) == len(D0) - 1
            and all(j == k or (j in D and same(D[j], D0[j])) for j in D0)
            and all(implies(order_of(D0, a) < order_of(D0, b), order_of(D, a) < order_of(D, b))
                    for a in D for b in D)
            and all(j in D0 for j in D))


# ------------------------------------------------------------------------------------------------ Agent (instance)
def Agent_rep(self):
    """Every component is stored under its exact type."""
    return all(typeof(self.components[T]) is T for T in self.components)


def agent_init_post(self, id, model, tag, old):
    return (self.id == id and self.model is model and len(self.components) == 0
            and is_fresh(self.components, old))


def agent_init_tag(self, id, model, tag, old):
    """C20: explicit tag wins (also 0); otherwise the current default tag of the agent's own class."""
    return self.tag == (typeof(self).tag if tag is None else tag)


contract('Core.Agent.__init__',
         params={'self': 'ref:Agent', 'id': 'str', 'model': 'ref:Model', 'tag': 'int'},
         ensures={'C20': [agent_init_post, agent_init_tag], 'C04': [agent_init_post], 'C03': [agent_init_post]},
         modifies=['self.id', 'self.model', 'field:self.components', 'self.tag', 'new:dict[cls,ref:Component]'],
         cases=[dict(name='tag', params={'tag': 'int'}), dict(name='notag', params={'tag': 'none'})],
         use='inline', props=['C20'])


def add_component_post(self, component, old):
    return dict_added(self.components, old.self.components, typeof(component), component)


def add_component_dup(self, component, old):
    return typeof(component) in old.self.components


contract('Core.Agent.add_component',
         params={'self': 'ref:Agent', 'component': 'ref:Component'},
         requires=[Agent_rep],
         ensures={'C03': [add_component_post, Agent_rep], 'C20': [add_component_post]},
         raises={'ValueError': dict(when=add_component_dup)},
         modifies=['self.components'], props=['C03', 'C20'])


def remove_component_post(self, component_type, old):
    return dict_removed(self.components, old.self.components, component_type)


def remove_component_absent(self, component_type, old):
    return component_type not in old.self.components


contract('Core.Agent.remove_component',
         params={'self': 'ref:Agent', 'component_type': 'cls'},
         requires=[Agent_rep],
         ensures={'C03': [remove_component_post, Agent_rep], 'C20': [remove_component_post]},
         raises={'ComponentNotFoundError': dict(when=remove_component_absent)},
         modifies=['self.components'], props=['C03', 'C20'])


def get_component_post(self, component_type, throw_error, result):
    return ((component_type in self.components and result is self.components[component_type])
            or (component_type not in self.components and is_none(result)))


def get_component_absent(self, component_type, throw_error, old):
    return throw_error and component_type not in old.self.components


contract('Core.Agent.get_component',
         params={'self': 'ref:Agent', 'component_type': 'cls', 'throw_error': 'bool'}, returns='ref?:Component',
         ensures={'C03': [get_component_post], 'C13': [get_component_post]},
         raises={'ComponentNotFoundError': dict(when=get_component_absent)},
         use='inline', props=['C03'])
contract('Core.Agent.__getitem__', params={'self': 'ref:Agent', 'item': 'cls'}, returns='ref?:Component',
         use='inline', props=['C03'])
def agent_contains_post(self, item, result):
    return result == (item in self.components)


contract('Core.Agent.__contains__', params={'self': 'ref:Agent', 'item': 'cls'}, returns='bool',
         ensures={'C13': [agent_contains_post]}, modifies=['new:list[cls]'], use='inline', props=['C13'])
contract('Core.Agent.__len__', params={'self': 'ref:Agent'}, returns='int', use='inline', props=['C03'])


# ------------------------------------------------------------------------------------------------ agent classes (C20)
def meta_init_post(cls, name, bases, properties, old):
    return (len(cls._components) == 0 and is_fresh(cls._components, old) and cls._tag == 0 and cls._id == name)


contract('Core._MetaAgent.__init__',
         params={'cls': 'ref:_MetaAgent', 'name': 'str', 'bases': 'any', 'properties': 'any'},
         ensures={'C20': [meta_init_post]},
         modifies=['cls._id', 'field:cls._components', 'cls._tag', 'new:dict[cls,ref:Component]'],
         props=['C20'])


def class_add_post(self, component, old):
    return dict_added(self._components, old.self._components, typeof(component), component)


def class_add_dup(self, component, old):
    return typeof(component) in old.self._components


contract('Core._MetaAgent.add_class_component',
         params={'self': 'ref:_MetaAgent', 'component': 'ref:Component'},
         ensures={'C20': [class_add_post]},
         raises={'ValueError': dict(when=class_add_dup)},
         modifies=['self._components'], props=['C20'])


def class_remove_post(self, component_type, old):
    return dict_removed(self._components, old.self._components, component_type)


def class_remove_absent(self, component_type, old):
    return component_type not in old.self._components


contract('Core._MetaAgent.remove_class_component',
         params={'self': 'ref:_MetaAgent', 'component_type': 'cls'},
         ensures={'C20': [class_remove_post]},
         raises={'ComponentNotFoundError': dict(when=class_remove_absent)},
         modifies=['self._components'], props=['C20'])


def class_get_post(self, component_type, throw_error, result):
    return ((component_type in self._components and result is self._components[component_type])
            or (component_type not in self._components and is_none(result)))


def class_get_absent(self, component_type, throw_error, old):
    return throw_error and component_type not in old.self._components


contract('Core._MetaAgent.get_class_component',
         params={'self': 'ref:_MetaAgent', 'component_type': 'cls', 'throw_error': 'bool'},
         returns='ref?:Component',
         ensures={'C20': [class_get_post]},
         raises={'ComponentNotFoundError': dict(when=class_get_absent)},
         props=['C20'])


def class_has_post(self, args, result):
    return result == all(args[j] in self._components for j in range(len(args)))


def class_has_inv(self, args, i):
    return 0 <= i and i <= len(args) and all(args[j] in self._components for j in range(0, i))


contract('Core._MetaAgent.has_class_component',
         params={'self': 'ref:_MetaAgent', '*args': 'list[cls]'}, returns='bool',
         ensures={'C20': [class_has_post]},
         loops={0: dict(invariant=[class_has_inv], index='i', modifies=[])},
         pure=True, props=['C20'])


def class_getitem_post(self, item, result):
    return ((item in self._components and result is self._components[item])
            or (item not in self._components and is_none(result)))


contract('Core._MetaAgent.__getitem__', params={'self': 'ref:_MetaAgent', 'item': 'cls'},
         returns='ref?:Component', ensures={'C20': [class_getitem_post]}, props=['C20'])


def class_len_post(self, result):
    return result == len(self._components)


contract('Core._MetaAgent.__len__', params={'self': 'ref:_MetaAgent'}, returns='int',
         ensures={'C20': [class_len_post]}, props=['C20'])


def class_contains_post(self, item, result):
    return result == (item in self._components)


contract('Core._MetaAgent.__contains__', params={'self': 'ref:_MetaAgent', 'item': 'cls'}, returns='bool',
         ensures={'C20': [class_contains_post]}, modifies=['new:list[cls]'], props=['C20'])


def tag_get_post(cls, result):
    return result == cls._tag


def tag_set_post(cls, val):
    return cls._tag == val


def components_get_post(cls, result):
    return result is cls._components


contract('Core._MetaAgent.tag@get', params={'cls': 'ref:_MetaAgent'}, returns='int',
         ensures={'C20': [tag_get_post]}, use='inline', props=['C20'])
contract('Core._MetaAgent.tag@set', params={'cls': 'ref:_MetaAgent', 'val': 'int'},
         ensures={'C20': [tag_set_post]}, modifies=['cls._tag'], use='inline', props=['C20'])
contract('Core._MetaAgent.components@get', params={'cls': 'ref:_MetaAgent'},
         returns='dict[cls,ref:Component]', ensures={'C20': [components_get_post]}, use='inline', props=['C20'])


# ------------------------------------------------------------------------------------------------ component pools
def pool_ext(P, P0, T, c):
    """Pool T is the old pool T (or nothing) with c appended."""
    return (T in P and len(P[T]) == (len(P0[T]) if T in P0 else 0) + 1 and P[T][len(P[T]) - 1] is c
            and (T not in P0 or all(P[T][j] is P0[T][j] for j in range(len(P0[T])))))


def pool_same(P, P0, T):
    return (T in P) == (T in P0) and (T not in P0 or same_elems(P[T], P0[T]))


def pool_cut(P, P0, T, c):
    """Pool T is the old pool T without (the first occurrence of) c; it disappears when it becomes empty."""
    return ((len(P0[T]) == 1 and T not in P)
            or (len(P0[T]) > 1 and T in P and len(P[T]) == len(P0[T]) - 1
                and all(P[T][j] is P0[T][j] for j in range(0, index_of(P0[T], c)))
                and all(P[T][j] is P0[T][j + 1] for j in range(index_of(P0[T], c), len(P[T])))
                and all(P[T][j - 1] is P0[T][j] for j in range(index_of(P0[T], c) + 1, len(P0[T])))))


def Pools_distinct(self):
    """Every component type has its own list object (M5)."""
    P = self.component_pools
    return all(P[T1] is not P[T2] for T1 in P for T2 in P if T1 is not T2)


def register_post(self, component, old):
    P = self.component_pools
    P0 = old.self.component_pools
    T = typeof(component)
    return (pool_ext(P, P0, T, component)
            and all(T2 is T or pool_same(P, P0, T2) for T2 in P0)
            and all(T2 is T or T2 in P0 for T2 in P)
            and all(T2 is T or same_obj(P[T2], P0[T2]) for T2 in P0)
            and (T not in P0 or same_obj(P[T], P0[T]))
            and (T in P0 or is_fresh(P[T], old)))


def register_dup(self, component, old):
    return typeof(component) in old.self.component_pools and \
        component in old.self.component_pools[typeof(component)]


contract('Core.SystemManager.register_component',
         params={'self': 'ref:SystemManager', 'component': 'ref:Component'},
         requires=[Pools_distinct],
         ensures={'C03': [register_post, Pools_distinct]},
         raises={'KeyError': dict(when=register_dup)},
         modifies=['self.component_pools', 'store:list[ref:Component]', 'new:list[ref:Component]'],
         props=['C03'])


def deregister_post(self, component, old):
    P = self.component_pools
    P0 = old.self.component_pools
    T = typeof(component)
    return (pool_cut(P, P0, T, component)
            and all(T2 is T or pool_same(P, P0, T2) for T2 in P0)
            and all(T2 in P0 for T2 in P)
            and all(T2 not in P or same_obj(P[T2], P0[T2]) for T2 in P0))


def deregister_unknown(self, component, old):
    return typeof(component) not in old.self.component_pools or \
        component not in old.self.component_pools[typeof(component)]


contract('Core.SystemManager.deregister_component',
         params={'self': 'ref:SystemManager', 'component': 'ref:Component'},
         requires=[Pools_distinct],
         ensures={'C03': [deregister_post, Pools_distinct]},
         raises={'KeyError': dict(when=deregister_unknown)},
         modifies=['self.component_pools', 'store:list[ref:Component]'],
         props=['C03'])


def get_components_post(self, component_type, throw_error, result):
    P = self.component_pools
    return ((component_type in P and result is P[component_type])
            or (component_type not in P and is_none(result)))


def get_components_absent(self, component_type, throw_error, old):
    return throw_error and component_type not in old.self.component_pools


contract('Core.SystemManager.get_components',
         params={'self': 'ref:SystemManager', 'component_type': 'cls', 'throw_error': 'bool'},
         returns='list[ref:Component]?',
         ensures={'C03': [get_components_post]},
         raises={'KeyError': dict(when=get_components_absent)},
         props=['C03'])


# ------------------------------------------------------------------------------------------------ C03: PoolsMirror
def pool_owner_ok(c, T, A):
    """c (listed under T) is the T-component of its holder, who is resident."""
    return (typeof(c) is T and c.agent.id in A and A[c.agent.id] is c.agent
            and T in c.agent.components and c.agent.components[T] is c)


def PoolsMirror(m):
    """The component listings of model m mirror exactly the components of the resident agents (M1-M6)."""
    P = m.systems.component_pools
    A = m.environment.agents
    return (all(len(P[T]) > 0 for T in P)
            and all(pool_owner_ok(P[T][i], T, A) for T in P for i in range(len(P[T])))
            and all(T in P and index_of(P[T], A[k].components[T]) < len(P[T])
                    for k in A for T in A[k].components if T is not PositionComponent)
            and all(order_of(A, P[T][i].agent.id) < order_of(A, P[T][j].agent.id)
                    for T in P for i in range(len(P[T])) for j in range(i + 1, len(P[T])))
            and all(P[T1] is not P[T2] for T1 in P for T2 in P if T1 is not T2)
            and all(A[k].components[T].agent is A[k] and typeof(A[k].components[T]) is T
                    for k in A for T in A[k].components))


def env_linked(self):
    return self.model.environment is self


def joiner_ok(self, agent):
    """The joining agent holds its own components under their exact types, none of them a position component."""
    C = agent.components
    return all(C[T].agent is agent and typeof(C[T]) is T and T is not PositionComponent for T in C)


def env_mirror(self):
    return PoolsMirror(self.model)


def env_add_post(self, agent, old):
    return dict_added(self.agents, old.self.agents, agent.id, agent)


def env_add_pools(self, agent, old):
    """Whole view of the listings: every component type of the joiner gains exactly that component at the end."""
    P = self.model.systems.component_pools
    P0 = old.self.model.systems.component_pools
    C = agent.components
    return (all(pool_ext(P, P0, T, C[T]) for T in C)
            and all(T in C or pool_same(P, P0, T) for T in P0)
            and all(T in C or T in P0 for T in P)
            and all((T in C and i == len(P[T]) - 1 and P[T][i] is C[T])
                    or (T in P0 and i < len(P0[T]) and P[T][i] is P0[T][i])
                    for T in P for i in range(len(P[T]))))


def env_add_dup(self, agent, old):
    return agent.id in old.self.agents


def env_add_inv(self, agent, old, p):
    P = self.model.systems.component_pools
    P0 = old.self.model.systems.component_pools
    C = agent.components
    return (0 <= p and p <= len(C)
            and dict_added(self.agents, old.self.agents, agent.id, agent)
            and all(pool_ext(P, P0, key_at(C, j), C[key_at(C, j)]) for j in range(0, p))
            and all(pool_same(P, P0, key_at(C, j)) for j in range(p, len(C)))
            and all(T in C or pool_same(P, P0, T) for T in P0)
            and all(T in C or T in P0 for T in P)
            and all(T in P and same_obj(P[T], P0[T]) for T in P0)
            and all(T in P0 or is_fresh(P[T], old) for T in P)
            and all(P[T1] is not P[T2] for T1 in P for T2 in P if T1 is not T2))


ENV_POOL_MODS = ['self.model.systems.component_pools', 'store:list[ref:Component]', 'new:list[ref:Component]']

contract('Core.Environment.add_agent',
         params={'self': 'ref:Environment', 'agent': 'ref:Agent'},
         requires=[Env_rep, env_linked, joiner_ok, env_mirror],
         ensures={'C04': [env_add_post, Env_rep], 'C03': [env_add_post, Env_rep, env_add_pools, env_mirror]},
         raises={'DuplicateAgentError': dict(when=env_add_dup)},
         modifies=['self.agents'] + ENV_POOL_MODS,
         loops={0: dict(invariant=[(env_add_inv, ['C03', 'C04'])], index='p', modifies=ENV_POOL_MODS)},
         props=['C03', 'C04'])


def env_remove_post(self, a_id, old):
    return dict_removed(self.agents, old.self.agents, a_id)


def env_remove_pools(self, a_id, old):
    """Whole view of the listings: every component type of the leaver loses exactly that component."""
    P = self.model.systems.component_pools
    P0 = old.self.model.systems.component_pools
    C = old.self.agents[a_id].components
    return (all(pool_cut(P, P0, T, C[T]) for T in C)
            and all(T in C or pool_same(P, P0, T) for T in P0)
            and all(T in P0 for T in P))


def env_remove_unknown(self, a_id, old):
    return a_id not in old.self.agents


def leaver_ok(self, a_id):
    """Inside a plain environment no resident carries a position component (spatial worlds detach it first)."""
    return a_id not in self.agents or all(T is not PositionComponent for T in self.agents[a_id].components)


def env_remove_inv(self, a_id, old, p):
    P = self.model.systems.component_pools
    P0 = old.self.model.systems.component_pools
    C = self.agents[a_id].components
    return (0 <= p and p <= len(C)
            and same_dict(self.agents, old.self.agents)
            and all(pool_cut(P, P0, key_at(C, j), C[key_at(C, j)]) for j in range(0, p))
            and all(pool_same(P, P0, key_at(C, j)) for j in range(p, len(C)))
            and all(T in C or pool_same(P, P0, T) for T in P0)
            and all(T in P0 for T in P)
            and all(T not in P or same_obj(P[T], P0[T]) for T in P0)
            and all(P[T1] is not P[T2] for T1 in P for T2 in P if T1 is not T2))


contract('Core.Environment.remove_agent',
         params={'self': 'ref:Environment', 'a_id': 'str'},
         requires=[Env_rep, env_linked, env_mirror, leaver_ok],
         ensures={'C04': [env_remove_post, Env_rep], 'C03': [env_remove_post, Env_rep, env_remove_pools, env_mirror]},
         raises={'AgentNotFoundError': dict(when=env_remove_unknown)},
         modifies=['self.agents', 'self.model.systems.component_pools', 'store:list[ref:Component]'],
         loops={0: dict(invariant=[(env_remove_inv, ['C03', 'C04'])], index='p',
                        modifies=['self.model.systems.component_pools', 'store:list[ref:Component]'])},
         props=['C03', 'C04'])


def env_init_post(self, model, id, old):
    return (self.id == id and self.model is model and len(self.agents) == 0 and len(self.components) == 0
            and is_fresh(self.agents, old) and is_fresh(self.components, old))


def env_init_tag(self, model, id, old):
    """C20: environments are agents too - an environment takes the default tag of its own class."""
    return self.tag == typeof(self).tag


contract('Core.Environment.__init__',
         params={'self': 'ref:Environment', 'model': 'ref:Model', 'id': 'str'},
         ensures={'C04': [env_init_post, Env_rep], 'C03': [env_init_post], 'C20': [env_init_post, env_init_tag]},
         modifies=['self.id', 'self.model', 'field:self.components', 'self.tag', 'field:self.agents',
                   'new:dict[cls,ref:Component]', 'new:dict[str,ref:Agent]'],
         props=['C04'])


def get_agent_post(self, id, throw_error, result):
    return ((id in self.agents and result is self.agents[id]) or (id not in self.agents and is_none(result)))


def get_agent_unknown(self, id, throw_error, old):
    return throw_error and id not in old.self.agents


contract('Core.Environment.get_agent',
         params={'self': 'ref:Environment', 'id': 'str', 'throw_error': 'bool'}, returns='ref?:Agent',
         ensures={'C04': [get_agent_post]},
         raises={'AgentNotFoundError': dict(when=get_agent_unknown)},
         props=['C04'])


def env_len_post(self, result):
    return result == len(self.agents)


contract('Core.Environment.__len__', params={'self': 'ref:Environment'}, returns='int',
         ensures={'C04': [env_len_post]}, props=['C04'])


def env_iter_post(self, result):
    """Iteration yields the residents in joining order (the generator is read as the list it produces)."""
    A = self.agents
    return len(result) == len(A) and all(result[i] is A[key_at(A, i)] for i in range(len(A)))


contract('Core.Environment.__iter__', params={'self': 'ref:Environment'}, returns='list[ref:Agent]',
         ensures={'C04': [env_iter_post]}, modifies=['new:list[ref:Agent]'], native=False,
         assumes=['a generator expression is read as the list of the values it yields (lazy evaluation not modelled)'],
         props=['C04'])


def random_pick_post(self, args, tag, result, old):
    """None iff no resident matches; otherwise a resident that matches."""
    A = self.agents
    return ((is_none(result) and all(not matches(A[k], args, tag) for k in A))
            or (not is_none(result) and result.id in A and A[result.id] is result and matches(result, args, tag)))


contract('Core.Environment.get_random_agent',
         params={'self': 'ref:Environment', '*args': 'list[cls]', 'tag': 'int'}, returns='ref?:Agent',
         requires=[Env_rep],
         ensures={'C13': [random_pick_post]},
         modifies=['new:list[ref:Agent]'],
         cases=[dict(name='tag', params={'tag': 'int'}), dict(name='notag', params={'tag': 'none'})],
         effects_check=['rng_only_model_random'],
         props=['C13', 'C07'])


def shuffle_post(self, args, tag, result, old):
    """A fresh list holding exactly the matching residents, each once (some order)."""
    A = self.agents
    return (is_fresh(result, old)
            and all(result[i].id in A and A[result[i].id] is result[i] and matches(result[i], args, tag)
                    for i in range(len(result)))
            and all(result[i] is not result[j] for i in range(len(result)) for j in range(i + 1, len(result)))
            and all(index_of(result, A[k]) < len(result) for k in A if matches(A[k], args, tag)))


contract('Core.Environment.shuffle',
         params={'self': 'ref:Environment', '*args': 'list[cls]', 'tag': 'int'}, returns='list[ref:Agent]',
         requires=[Env_rep],
         ensures={'C13': [shuffle_post]},
         modifies=['new:list[ref:Agent]'],
         cases=[dict(name='tag', params={'tag': 'int'}), dict(name='notag', params={'tag': 'none'})],
         effects_check=['rng_only_model_random'],
         props=['C13', 'C07'])


def sm_getitem_str_post(self, item, result):
    return ((item in self.systems and result is self.systems[item]) or (item not in self.systems and is_none(result)))


contract('Core.SystemManager.__getitem__',
         params={'self': 'ref:SystemManager', 'item': 'str'}, returns='ref?:System',
         ensures={'C01': [sm_getitem_str_post]}, props=['C01'])


def sm_getitem_type_post(self, item, result):
    P = self.component_pools
    return ((item in P and result is P[item]) or (item not in P and is_none(result)))


contract('Core.SystemManager.__getitem__', variant='type',
         params={'self': 'ref:SystemManager', 'item': 'cls'}, returns='list[ref:Component]?',
         ensures={'C03': [sm_getitem_type_post]}, props=['C03'])


# ------------------------------------------------------------------------------------------------ C03 open findings
# Component edits on a *resident* agent: the property asks the listings to follow; the code does not touch them.
# These case-split contracts are expected to be refuted (known_findings.json F1, F2, F3b); the base contracts above
# are the characterisation of what the code does instead (components updated, listings untouched).
def resident_self(self):
    A = self.model.environment.agents
    return self.id in A and A[self.id] is self and Env_rep(self.model.environment)


def self_mirror(self):
    return PoolsMirror(self.model)


def component_not_position(self, component):
    return typeof(component) is not PositionComponent and component.agent is self


contract('Core.Agent.add_component', variant='resident',
         params={'self': 'ref:Agent', 'component': 'ref:Component'},
         requires=[Agent_rep, resident_self, self_mirror, component_not_position],
         ensures={'C03': [self_mirror]},
         raises={'ValueError': dict(when=add_component_dup)},
         modifies=['self.components'], native=False, props=['C03'],
         expect_refuted=True, notes='expected refuted: open finding F1')


def type_not_position(self, component_type):
    return component_type is not PositionComponent


contract('Core.Agent.remove_component', variant='resident',
         params={'self': 'ref:Agent', 'component_type': 'cls'},
         requires=[Agent_rep, resident_self, self_mirror, type_not_position],
         ensures={'C03': [self_mirror]},
         raises={'ComponentNotFoundError': dict(when=remove_component_absent)},
         modifies=['self.components'], native=False, props=['C03'],
         expect_refuted=True, notes='expected refuted: open finding F2')


# ------------------------------------------------------------------------------------------------ C05: dynamic view
REG.ghosts['removed'] = 'map[bool]'      # systems unregistered at some point of the current timestep
REG.ghosts['added'] = 'map[bool]'        # systems (re-)registered at some point of the current timestep


def reg_in(x, S):
    return x.id in S and S[x.id] is x


def dyn_summary(self, caller, old):
    """Assumed summary of any sequence of add_system / remove_system calls made by user code (Appendix B)."""
    S = caller.self.systems
    S0 = old.caller.self.systems
    return (SM_rep(caller.self) and freq_ok(caller.self)
            and all(reg_in(S0[k], S) or ghost().removed[S0[k]] for k in S0)
            and all(reg_in(S[k], S0) or ghost().added[S[k]] for k in S)
            and all(not ghost().removed[S[k]] or ghost().added[S[k]] for k in S))


def mon_norerun(self, caller):
    """C05: no system runs twice in one timestep; a system removed before its turn (and not re-added) does not run."""
    return ghost().runs[self] == 0 and (not ghost().removed[self] or ghost().added[self])


def mon_order_dyn(self, caller):
    """C05: systems registered for the whole timestep run in priority / registration order."""
    S0 = caller.old.self.systems
    return (is_none(ghost().last) or not reg_in(ghost().last, S0) or not reg_in(self, S0)
            or before(ghost().last, self, S0))


def mon_due_dyn(self, caller):
    return due(self, caller.self.timestep)


DYN_MODS = USER_CODE_MODIFIES + ['caller.self.systems', 'caller.self.execution_queue']

contract('Core.System.execute', variant='dynamic',
         params={'self': 'ref:System'},
         kind='abstract',
         monitor={'C05': [mon_norerun, mon_order_dyn, mon_due_dyn, mon_running]},
         modifies=DYN_MODS,
         ensures={'C05': [dyn_summary]},
         effects='system_execute_dyn',
         assumes=['System.execute is user code: assumed op-sequence summary of DESIGN Appendix B (dynamic view)'])


def exec_dyn_post(self, throw_error, old):
    """Every system registered for the whole timestep and due ran exactly once (while the model kept running)."""
    S = self.systems
    S0 = old.self.systems
    t0 = old.self.timestep
    return (implies(running(old.self.model), self.timestep == t0 + 1)
            and all(implies(reg_in(S0[k], S) and not ghost().removed[S0[k]] and due(S0[k], t0) and running(self.model),
                            ghost().runs[S0[k]] == 1) for k in S0))


def exec_dyn_inv(self, throw_error, old, i, snap):
    S = self.systems
    Q0 = old.self.execution_queue
    t0 = old.self.timestep
    return (0 <= i and i <= len(snap) and same_elems(snap, Q0) and self.timestep == t0
            and running(old.self.model) and SM_rep(self) and freq_ok(self)
            and all(ghost().runs[snap[j]] == 0 for j in range(i, len(snap)))
            and all(not ghost().removed[S[k]] or ghost().added[S[k]] for k in S)
            and all(reg_in(snap[j], S) or ghost().removed[snap[j]] for j in range(len(snap)))
            and all(implies(reg_in(snap[j], S) and not ghost().removed[snap[j]] and due(snap[j], t0)
                            and running(self.model), ghost().runs[snap[j]] == 1) for j in range(0, i))
            and (is_none(ghost().last) or index_of(snap, ghost().last) < i))


contract('Core.SystemManager.execute_systems', variant='dynamic',
         params={'self': 'ref:SystemManager', 'throw_error': 'bool'},
         requires=[SM_rep, freq_ok],
         ensures={'C05': [exec_dyn_post]},
         raises={'ModelCompleteError': dict(when=exec_complete_err, props=['C05'])},
         modifies=['self.timestep', 'self.systems', 'self.execution_queue', 'new:list[ref:System]']
         + USER_CODE_MODIFIES + SCHED_GHOSTS + ['ghost:removed', 'ghost:added'],
         loops={0: dict(invariant=[(exec_dyn_inv, ['C05'])], index='i', iter_name='snap',
                        modifies=['self.systems', 'self.execution_queue'] + USER_CODE_MODIFIES + SCHED_GHOSTS
                        + ['ghost:removed', 'ghost:added'], props=['C05'])},
         ghost_init='sched_ghost_init_dyn', view='dynamic', native=False,
         props=['C05'])


# ------------------------------------------------------------------------------------------------ engine lemmas
def mod_neg_zero(a, f):
    """For a positive divisor, a is a multiple of f iff -a is (instances are used by the engine for symbolic %)."""
    return f <= 0 or ((a % f == 0) == ((0 - a) % f == 0))


lemma('mod_neg_zero', ['C02', 'C05'], mod_neg_zero, params={'a': 'int', 'f': 'int'}, engine_lemma=True)
