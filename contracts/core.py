"""Checked contracts for ECAgent/Core.py.  Predicates are executable Python (symbolic + concrete reading)."""
from pyvc.specs import contract, fields_of, lemma, implies, iff, index_of, order_of, key_at, is_fresh, \
    same_elems, same_dict, typeof, is_none

# ------------------------------------------------------------------------------------------------ field types
fields_of('Model', environment='ref:Environment', systems='ref:SystemManager', random='ref:Random',
          logger='ref:Logger', _status='int')
fields_of('Component', agent='any', model='ref:Model')
fields_of('_MetaAgent', _id='str', _components='dict[cls,ref:Component]', _tag='int')
fields_of('Agent', id='str', model='ref:Model', components='dict[cls,ref:Component]', tag='int')
fields_of('System', id='str', model='ref:Model', priority='int', frequency='int', start='int', end='int')
fields_of('SystemManager', timestep='int', systems='dict[str,ref:System]', execution_queue='list[ref:System]',
          component_pools='dict[cls,list[ref:Component]]', model='ref:Model')
fields_of('Environment', agents='dict[str,ref:Agent]')


from pyvc.specs import REG, ghost
REG.ghosts['runs'] = 'map[int]'          # per-call monitor: how often a system ran in this execute_systems call
REG.ghosts['last'] = 'ref?:System'       # per-call monitor: the system that ran last

# which properties own the frame ("nothing else written") obligations of each field / container store
REG.frame_tags.update({
    'start': ['C02'], 'end': ['C02'], 'frequency': ['C02'], 'priority': ['C01', 'C05'],
    'id': ['C01', 'C04', 'C05'], 'timestep': ['C02', 'C06'], '_status': ['C06'],
    'dict[str,ref:System]': ['C01', 'C05'], 'list[ref:System]': ['C01', 'C05'],
    'dict[str,ref:Agent]': ['C04', 'C13', 'C03'], 'dict[cls,ref:Component]': ['C03', 'C04', 'C20'],
    'dict[cls,list[ref:Component]]': ['C03', 'C04'], 'list[ref:Component]': ['C03', 'C04'],
    'tag': ['C13', 'C20'], '_tag': ['C20'], '_components': ['C20'], 'components': ['C03', 'C04', 'C20'],
    'agents': ['C04'], 'x': ['C08'], 'y': ['C08'], 'z': ['C08'],
    'systems': ['C01', 'C03'], 'execution_queue': ['C01'], 'component_pools': ['C03'],
})

# ------------------------------------------------------------------------------------------------ C01: queue
def before(a, b, S):
    """a is scheduled before b: higher priority, or equal priority and registered earlier."""
    return a.priority > b.priority or (a.priority == b.priority and order_of(S, a.id) < order_of(S, b.id))


def SM_rep(self):
    """Representation invariant of SystemManager (R2, R3, R4 of DESIGN 5/C01; R1 follows from R4)."""
    Q = self.execution_queue
    S = self.systems
    return (len(Q) == len(S)
            and all(Q[i].id in S and S[Q[i].id] is Q[i] for i in range(len(Q)))
            and all(index_of(Q, S[k]) < len(Q) and S[k].id == k for k in S)
            and all(before(Q[i], Q[j], S) for i in range(len(Q)) for j in range(i + 1, len(Q))))


def add_system_post(self, s, old):
    Q = self.execution_queue
    Q0 = old.self.execution_queue
    S = self.systems
    S0 = old.self.systems
    k = index_of(Q, s)
    return (len(Q) == len(Q0) + 1 and k <= len(Q0)
            and all(Q[j] is Q0[j] and Q0[j].priority >= s.priority for j in range(0, k))
            and all(Q[j + 1] is Q0[j] for j in range(k, len(Q0)))
            and (k >= len(Q0) or Q0[k].priority < s.priority)
            and s.id in S and S[s.id] is s and len(S) == len(S0) + 1
            and all(k2 in S and S[k2] is S0[k2] and order_of(S, k2) < order_of(S, s.id) for k2 in S0)
            and all(implies(order_of(S0, a) < order_of(S0, b), order_of(S, a) < order_of(S, b))
                    for a in S0 for b in S0)
            and all(k2 in S0 or k2 == s.id for k2 in S))


def add_system_dup(self, s, old):
    return s.id in old.self.systems


def add_system_inv(self, s, i):
    Q = self.execution_queue
    return (0 <= i and i <= len(Q)
            and all(Q[j].priority >= s.priority for j in range(0, i)))


contract('Core.SystemManager.add_system',
         params={'self': 'ref:SystemManager', 's': 'ref:System'},
         requires=[SM_rep],
         ensures={'C01': [add_system_post, SM_rep]},
         raises={'KeyError': dict(when=add_system_dup)},
         modifies=['self.systems', 'self.execution_queue'],
         loops={0: dict(invariant=[add_system_inv], index='i', modifies=[])},
         props=['C01'])


def remove_system_post(self, s_id, old):
    Q = self.execution_queue
    Q0 = old.self.execution_queue
    S = self.systems
    S0 = old.self.systems
    k = index_of(Q0, S0[s_id])
    return (len(Q) == len(Q0) - 1 and k < len(Q0)
            and all(Q[j] is Q0[j] for j in range(0, k))
            and all(Q[j] is Q0[j + 1] for j in range(k, len(Q)))
            and s_id not in S and len(S) == len(S0) - 1
            and all(k2 == s_id or (k2 in S and S[k2] is S0[k2]) for k2 in S0)
            and all(implies(order_of(S0, a) < order_of(S0, b), order_of(S, a) < order_of(S, b))
                    for a in S for b in S)
            and all(k2 in S0 for k2 in S))


def remove_system_unknown(self, s_id, old):
    return s_id not in old.self.systems


contract('Core.SystemManager.remove_system',
         params={'self': 'ref:SystemManager', 's_id': 'str'},
         requires=[SM_rep],
         ensures={'C01': [remove_system_post, SM_rep]},
         raises={'SystemNotFoundError': dict(when=remove_system_unknown)},
         modifies=['self.systems', 'self.execution_queue'],
         props=['C01'])


def sm_init_post(self, model):
    return (self.timestep == 0 and len(self.systems) == 0 and len(self.execution_queue) == 0
            and len(self.component_pools) == 0 and self.model is model)


contract('Core.SystemManager.__init__',
         params={'self': 'ref:SystemManager', 'model': 'ref:Model'},
         ensures={'C01': [sm_init_post, SM_rep], 'C02': [sm_init_post], 'C03': [sm_init_post]},
         modifies=['field:self.timestep', 'field:self.systems', 'field:self.execution_queue',
                   'field:self.component_pools', 'field:self.model',
                   'new:dict[str,ref:System]', 'new:list[ref:System]', 'new:dict[cls,list[ref:Component]]'],
         locals={},
         props=['C01'])


def system_init_post(self, id, model, priority, frequency, start, end):
    return (self.id == id and self.model is model and self.priority == priority
            and self.frequency == frequency and self.start == start and self.end == end)


contract('Core.System.__init__',
         params={'self': 'ref:System', 'id': 'str', 'model': 'ref:Model', 'priority': 'int', 'frequency': 'int',
                 'start': 'int', 'end': 'int'},
         ensures={'C01': [system_init_post], 'C02': [system_init_post]},
         modifies=['self.id', 'self.model', 'self.priority', 'self.frequency', 'self.start', 'self.end'],
         use='inline', props=['C01', 'C02'])


# ------------------------------------------------------------------------------------------------ scheduler
def due(x, t):
    """C02 statement: start <= t <= end and (t - start) is a multiple of frequency."""
    return x.start <= t and t <= x.end and (t - x.start) % x.frequency == 0


def running(m):
    return m._status < 1


def freq_ok(self):
    Q = self.execution_queue
    return all(Q[i].frequency >= 1 for i in range(len(Q)))


def exec_post_running(self, throw_error, old):
    """Model running at entry: the step advances time by exactly one."""
    return implies(running(old.self.model), self.timestep == old.self.timestep + 1)


def exec_post_not_running(self, throw_error, old):
    return implies(not running(old.self.model), self.timestep == old.self.timestep and not running(self.model))


def exec_post_runs(self, throw_error, old):
    """Every registered system ran at most once, only if due; exactly once if due and the model stayed running."""
    Q = self.execution_queue
    t0 = old.self.timestep
    return (all(ghost().runs[Q[j]] == 0 or (ghost().runs[Q[j]] == 1 and due(Q[j], t0)) for j in range(len(Q)))
            and implies(running(self.model),
                        all(ghost().runs[Q[j]] == (1 if due(Q[j], t0) else 0) for j in range(len(Q))))
            and implies(not running(old.self.model), all(ghost().runs[Q[j]] == 0 for j in range(len(Q)))))


def exec_complete_err(self, throw_error, old):
    return throw_error and not running(old.self.model)


def exec_inv_basic(self, throw_error, old, i):
    return (0 <= i and i <= len(self.execution_queue) and self.timestep == old.self.timestep
            and running(old.self.model))


def exec_inv_runs(self, throw_error, old, i):
    Q = self.execution_queue
    t0 = old.self.timestep
    return (all(ghost().runs[Q[j]] == 0 or (ghost().runs[Q[j]] == 1 and due(Q[j], t0)) for j in range(0, i))
            and implies(running(self.model),
                        all(ghost().runs[Q[j]] == (1 if due(Q[j], t0) else 0) for j in range(0, i)))
            and all(ghost().runs[Q[j]] == 0 for j in range(i, len(Q))))


def exec_inv_last(self, throw_error, old, i):
    return is_none(ghost().last) or index_of(self.execution_queue, ghost().last) < i


USER_CODE_MODIFIES = ['fieldall:_status', 'store:dict[str,ref:Agent]', 'store:dict[cls,ref:Component]',
                      'store:dict[cls,list[ref:Component]]', 'store:list[ref:Component]', 'fieldall:tag']
SCHED_GHOSTS = ['ghost:runs', 'ghost:last']

contract('Core.SystemManager.execute_systems',
         params={'self': 'ref:SystemManager', 'throw_error': 'bool'},
         requires=[SM_rep, freq_ok],
         ensures={'C02': [exec_post_running, exec_post_runs], 'C06': [exec_post_not_running]},
         raises={'ModelCompleteError': dict(when=exec_complete_err, props=['C06'])},
         modifies=['self.timestep'] + USER_CODE_MODIFIES + SCHED_GHOSTS,
         loops={0: dict(invariant=[(exec_inv_basic, ['C01', 'C02', 'C06']), (exec_inv_runs, ['C02']),
                                   (exec_inv_last, ['C01'])],
                        index='i', modifies=USER_CODE_MODIFIES + SCHED_GHOSTS, props=['C01', 'C02', 'C06'])},
         ghost_init='sched_ghost_init',
         props=['C01', 'C02', 'C06'])


# ---- assumed contract of user code (abstract): System.execute, static view (system set not edited mid-step)
def mon_order(self, caller):
    """C01: the system about to run comes after the previous one in (priority desc, registration asc)."""
    return is_none(ghost().last) or before(ghost().last, self, caller.self.systems)


def mon_due(self, caller):
    """C02: only due systems run, and none runs twice within one step."""
    return due(self, caller.self.timestep) and ghost().runs[self] == 0


def mon_running(self, caller):
    """C06: nothing runs once the model is complete."""
    return running(caller.self.model)


contract('Core.System.execute',
         params={'self': 'ref:System'},
         kind='abstract',
         monitor={'C01': [mon_order], 'C02': [mon_due], 'C06': [mon_running]},
         modifies=USER_CODE_MODIFIES,
         effects='system_execute',
         assumes=['System.execute is user code: assumed frame of DESIGN Appendix B (static view)'])


# ------------------------------------------------------------------------------------------------ Model
def model_init_post(self, seed, logger):
    return (running(self) and self.systems.model is self and self.environment.model is self
            and self.systems.timestep == 0 and len(self.systems.systems) == 0
            and len(self.systems.execution_queue) == 0 and len(self.systems.component_pools) == 0
            and len(self.environment.agents) == 0 and len(self.environment.components) == 0)


contract('Core.Model.__init__',
         params={'self': 'ref:Model', 'seed': 'any', 'logger': 'ref?:Logger'},
         ensures={'C06': [model_init_post], 'C03': [model_init_post], 'C02': [model_init_post]},
         modifies=['self.environment', 'self.systems', 'self.random', 'self.logger', 'self._status',
                   'new:obj:Environment', 'new:obj:SystemManager', 'new:obj:Random', 'new:obj:Logger',
                   'new:dict[str,ref:System]', 'new:list[ref:System]', 'new:dict[cls,list[ref:Component]]',
                   'new:dict[str,ref:Agent]', 'new:dict[cls,ref:Component]'],
         props=['C06'])


def complete_post(self):
    return not running(self) and self._status == 1


contract('Core.Model.complete', params={'self': 'ref:Model'}, ensures={'C06': [complete_post]},
         modifies=['self._status'], use='inline', props=['C06'])


def is_running_post(self, result):
    return result == running(self)


contract('Core.Model.is_running', params={'self': 'ref:Model'}, returns='bool',
         ensures={'C06': [is_running_post]}, use='inline', props=['C06'])
contract('Core.Model.__bool__', params={'self': 'ref:Model'}, returns='bool',
         ensures={'C06': [is_running_post]}, use='inline', props=['C06'])


def getattr_timestep_post(self, item, result):
    return result == self.systems.timestep


def getattr_other(self, item, old):
    return item != 'timestep'


contract('Core.Model.__getattr__', params={'self': 'ref:Model', 'item': 'str'}, returns='int',
         ensures={'C02': [getattr_timestep_post]},
         raises={'AttributeError': dict(when=getattr_other)},
         use='inline', props=['C02'])


def model_exec_requires(self):
    return SM_rep(self.systems) and freq_ok(self.systems) and self.systems.model is self


def model_exec_post(self, n, old):
    t0 = old.self.systems.timestep
    return (self.systems.timestep >= t0 and self.systems.timestep <= t0 + n
            and implies(running(self), self.systems.timestep == t0 + n))


def model_exec_post_complete(self, n, old):
    """C06: a completed model is left untouched by any advance request."""
    return implies(not running(old.self), self.systems.timestep == old.self.systems.timestep and not running(self))


def model_exec_bad_value(self, n, old):
    return n <= 0


def model_exec_inv(self, n, old, _):
    t0 = old.self.systems.timestep
    return (0 <= _ and _ <= n and self.systems.timestep >= t0 and self.systems.timestep <= t0 + _
            and implies(running(self), self.systems.timestep == t0 + _)
            and implies(not running(old.self), self.systems.timestep == t0)
            and implies(not running(old.self), not running(self))
            and SM_rep(self.systems) and freq_ok(self.systems) and self.systems.model is self)


contract('Core.Model.execute',
         params={'self': 'ref:Model', 'n': 'int'},
         requires=[model_exec_requires],
         ensures={'C02': [model_exec_post], 'C06': [model_exec_post_complete]},
         raises={'ValueError': dict(when=model_exec_bad_value)},
         modifies=['self.systems.timestep'] + USER_CODE_MODIFIES + SCHED_GHOSTS,
         loops={0: dict(invariant=[(model_exec_inv, ['C02', 'C06'])], index='_',
                        modifies=['self.systems.timestep'] + USER_CODE_MODIFIES + SCHED_GHOSTS)},
         cases=[dict(name='int', params={'n': 'int'})],
         props=['C02', 'C06'])


def model_exec_type_requires(self, n):
    return typeof(n) is not int and typeof(n) is not bool


contract('Core.Model.execute', variant='nonint',
         params={'self': 'ref:Model', 'n': 'any'},
         requires=[model_exec_type_requires],
         ensures={},
         raises={'TypeError': dict(when=None, always=True)},
         modifies=[],
         notes='n that is not an instance of int (float, str, None, object): must raise TypeError, nothing changed',
         props=['C02'])


# ------------------------------------------------------------------------------------------------ Agent
def has_all(a, ts):
    """Agent a carries every component type of the template ts (empty template: True)."""
    return all(ts[j] in a.components for j in range(len(ts)))


def has_component_post(self, args, result):
    return result == has_all(self, args)


def has_component_inv(self, args, i):
    return 0 <= i and i <= len(args) and all(args[j] in self.components for j in range(0, i))


contract('Core.Agent.has_component',
         params={'self': 'ref:Agent', '*args': 'list[cls]'}, returns='bool',
         ensures={'C13': [has_component_post]},
         loops={0: dict(invariant=[has_component_inv], index='i', modifies=[])},
         pure=True, props=['C13'])


def Env_rep(self):
    """Every resident agent is stored under its own id."""
    return all(self.agents[k].id == k for k in self.agents)


def matches(a, ts, tag):
    return has_all(a, ts) and (tag is None or a.tag == tag)


def get_agents_post(self, args, tag, result, old):
    A = self.agents
    return (is_fresh(result, old)
            and all(result[i].id in A and A[result[i].id] is result[i] and matches(result[i], args, tag)
                    for i in range(len(result)))
            and all(order_of(A, result[i].id) < order_of(A, result[j].id)
                    for i in range(len(result)) for j in range(i + 1, len(result)))
            and all(index_of(result, A[k]) < len(result) for k in A if matches(A[k], args, tag)))


contract('Core.Environment.get_agents',
         params={'self': 'ref:Environment', '*args': 'list[cls]', 'tag': 'int'}, returns='list[ref:Agent]',
         requires=[Env_rep],
         ensures={'C13': [get_agents_post]},
         modifies=['new:list[ref:Agent]'],
         locals={'matching_agents': 'list[ref:Agent]'},
         cases=[dict(name='tag', params={'tag': 'int'}), dict(name='notag', params={'tag': 'none'})],
         props=['C13'])
