"""Checked contracts for ECAgent/Core.py.  Predicates are executable Python (symbolic + concrete reading)."""
from pyvc.specs import contract, fields_of, lemma, implies, iff, index_of, order_of, key_at, is_fresh, \
    same_elems, same_dict, typeof, is_none

# ------------------------------------------------------------------------------------------------ field types
fields_of('Model', environment='ref:Environment', systems='ref:SystemManager', random='ref:Random',
          logger='ref:Logger', _status='int')
fields_of('Component', agent='any', model='ref:Model')
fields_of('_MetaAgent', _id='str', _components='dict[cls,ref:Component]', _tag='int')
fields_of('Agent', id='str', model='ref:Model', components='dict[cls,ref:Component]', tag='int')
fields_of('System', id='str', model='ref:Model', priority='int', frequency='int', start='int', end='int')
fields_of('SystemManager', timestep='int', systems='dict[str,ref:System]', execution_queue='list[ref:System]',
          component_pools='dict[cls,list[ref:Component]]', model='ref:Model')
fields_of('Environment', agents='dict[str,ref:Agent]')


# ------------------------------------------------------------------------------------------------ C01: queue
def before(a, b, S):
    """a is scheduled before b: higher priority, or equal priority and registered earlier."""
    return a.priority > b.priority or (a.priority == b.priority and order_of(S, a.id) < order_of(S, b.id))


def SM_rep(self):
    """Representation invariant of SystemManager (R2, R3, R4 of DESIGN 5/C01; R1 follows from R4)."""
    Q = self.execution_queue
    S = self.systems
    return (len(Q) == len(S)
            and all(Q[i].id in S and S[Q[i].id] is Q[i] for i in range(len(Q)))
            and all(index_of(Q, S[k]) < len(Q) and S[k].id == k for k in S)
            and all(before(Q[i], Q[j], S) for i in range(len(Q)) for j in range(i + 1, len(Q))))


def add_system_post(self, s, old):
    Q = self.execution_queue
    Q0 = old.self.execution_queue
    S = self.systems
    S0 = old.self.systems
    k = index_of(Q, s)
    return (len(Q) == len(Q0) + 1 and k <= len(Q0)
            and all(Q[j] is Q0[j] and Q0[j].priority >= s.priority for j in range(0, k))
            and all(Q[j + 1] is Q0[j] for j in range(k, len(Q0)))
            and implies(k < len(Q0), Q0[k].priority < s.priority)
            and s.id in S and S[s.id] is s and len(S) == len(S0) + 1
            and all(k2 in S and S[k2] is S0[k2] and order_of(S, k2) < order_of(S, s.id) for k2 in S0)
            and all(implies(order_of(S0, a) < order_of(S0, b), order_of(S, a) < order_of(S, b))
                    for a in S0 for b in S0)
            and all(k2 in S0 or k2 == s.id for k2 in S))


def add_system_dup(self, s, old):
    return s.id in old.self.systems


def add_system_inv(self, s, i):
    Q = self.execution_queue
    return (0 <= i and i <= len(Q)
            and all(Q[j].priority >= s.priority for j in range(0, i)))


contract('Core.SystemManager.add_system',
         params={'self': 'ref:SystemManager', 's': 'ref:System'},
         requires=[SM_rep],
         ensures={'C01': [add_system_post, SM_rep]},
         raises={'KeyError': dict(when=add_system_dup)},
         modifies=['self.systems', 'self.execution_queue'],
         loops={0: dict(invariant=[add_system_inv], index='i', modifies=[])},
         props=['C01'])
