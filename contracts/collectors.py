"""Checked contracts for ECAgent/Collectors.py (C17)."""
from pyvc.specs import contract, fields_of, lemma, implies, iff, index_of, order_of, key_at, is_fresh, \
    same_elems, same_dict, typeof, is_none, same, same_obj, was, now, REG, rec_has, rec_get, as_dict, file_log, ghost
from contracts.core import Env_rep

fields_of('Collector', records='list[any]')
fields_of('AgentCollector', agentFunc='any', compositeFunc='any', includeTimestep='bool')
fields_of('FileCollector', filename='str', filemode='str', write_count='int', last_write='int',
          clear_records_on_write='bool')
fields_of('File', log='list[any]', mode='str')
REG.ghosts['collected'] = 'list[any]'      # everything collect() ever appended to this collector (abstract file model)
REG.frame_tags.update({'records': ['C17'], 'last_write': ['C17'], 'write_count': ['C17'], 'filename': ['C17'],
                       'filemode': ['C17'], 'clear_records_on_write': ['C17'], 'agentFunc': ['C17'],
                       'compositeFunc': ['C17'], 'includeTimestep': ['C17'], 'log': ['C17'], 'mode': ['C17']})
REG.frame_tags['dict[str,any]'] = REG.frame_tags.get('dict[str,any]', []) + ['C17']


# ------------------------------------------------------------------------------------------------ construction
def collector_init_post(self, id, model, priority, frequency, start, end, old):
    return (self.id == id and self.model is model and self.priority == priority and self.frequency == frequency
            and self.start == start and self.end == end and len(self.records) == 0 and is_fresh(self.records, old))


contract('Collectors.Collector.__init__',
         params={'self': 'ref:Collector', 'id': 'str', 'model': 'ref:Model', 'priority': 'int', 'frequency': 'int',
                 'start': 'int', 'end': 'int'},
         ensures={'C17': [collector_init_post], 'C01': [collector_init_post]},
         modifies=['self.id', 'self.model', 'self.priority', 'self.frequency', 'self.start', 'self.end',
                   'field:self.records', 'new:list[any]'],
         use='inline', props=['C17'])


# ------------------------------------------------------------------------------------------------ AgentCollector.collect
def res(self, a):
    return self.agentFunc(a)


def comp(self):
    return self.compositeFunc(self.model.environment.agents)


def comp_has(self, k):
    return (not is_none(self.compositeFunc)) and (not is_none(comp(self))) and rec_has(comp(self), k)


def keys_disjoint(self):
    """N3 (stated precondition): 'timestep' and the composite keys do not collide with agent ids."""
    A = self.model.environment.agents
    return (all(not comp_has(self, k) for k in A)
            and implies(self.includeTimestep, 'timestep' not in A and not comp_has(self, 'timestep')))


def env_ok(self):
    return Env_rep(self.model.environment)


def collect_record_ok(self, D):
    """The record holds exactly the non-empty per-agent results (+ timestep and composite data when configured)."""
    A = self.model.environment.agents
    return (all(implies(not is_none(res(self, A[k])), k in D and same(D[k], res(self, A[k]))) for k in A)
            and all(implies(is_none(res(self, A[k])), k not in D) for k in A)
            and implies(self.includeTimestep, 'timestep' in D and D['timestep'] == self.model.systems.timestep)
            and all(implies(comp_has(self, k), same(D[k], rec_get(comp(self), k))) for k in D)
            and all((k in A and not is_none(res(self, A[k]))) or (self.includeTimestep and k == 'timestep')
                    or comp_has(self, k) for k in D))


def collect_post(self, old):
    R = self.records
    R0 = old.self.records
    return (len(R) >= len(R0) and len(R) <= len(R0) + 1
            and all(same(R[j], R0[j]) for j in range(len(R0)))
            and implies(len(R) == len(R0) + 1,
                        is_fresh(as_dict(R[len(R0)]), old) and len(as_dict(R[len(R0)])) > 0
                        and collect_record_ok(self, as_dict(R[len(R0)])))
            and implies(len(R) == len(R0),
                        not self.includeTimestep
                        and all(is_none(res(self, self.model.environment.agents[k]))
                                for k in self.model.environment.agents)))


def collect_inv(self, old, p, tmpDict):
    A = self.model.environment.agents
    return (0 <= p and p <= len(A) and is_fresh(tmpDict, old)
            and all(implies(not is_none(res(self, A[key_at(A, j)])),
                            key_at(A, j) in tmpDict and same(tmpDict[key_at(A, j)], res(self, A[key_at(A, j)])))
                    for j in range(0, p))
            and all(implies(is_none(res(self, A[key_at(A, j)])), key_at(A, j) not in tmpDict) for j in range(0, p))
            and all(key_at(A, j) not in tmpDict for j in range(p, len(A)))
            and implies(self.includeTimestep, 'timestep' in tmpDict
                        and tmpDict['timestep'] == self.model.systems.timestep)
            and all((k in A and not is_none(res(self, A[k]))) or (self.includeTimestep and k == 'timestep')
                    for k in tmpDict))


contract('Collectors.AgentCollector.collect',
         params={'self': 'ref:AgentCollector'},
         requires=[env_ok, keys_disjoint],
         ensures={'C17': [collect_post]},
         modifies=['self.records', 'new:dict[str,any]'],
         locals={'tmpDict': 'dict[str,any]'}, roles={'tmpDict': 'emptydict#0'},
         loops={0: dict(invariant=[(collect_inv, ['C17'])], index='p', modifies=['tmpDict'])},
         native=False, props=['C17'],
         assumes=['agentFunc / compositeFunc are pure functions of their argument (no effect on the model)'])


# ------------------------------------------------------------------------------------------------ FileCollector
def file_init_post(self, id, model, filename, priority, frequency, start, end, filemode, write_count,
                   clear_records_on_write, old):
    return (self.filename == filename and self.filemode == filemode and self.write_count == write_count
            and self.last_write == 0 and self.clear_records_on_write == clear_records_on_write
            and len(self.records) == 0 and self.priority == priority and self.id == id and self.model is model
            and self.frequency == frequency and self.start == start and self.end == end)


contract('Collectors.FileCollector.__init__',
         params={'self': 'ref:FileCollector', 'id': 'str', 'model': 'ref:Model', 'filename': 'str', 'priority': 'int',
                 'frequency': 'int', 'start': 'int', 'end': 'int', 'filemode': 'str', 'write_count': 'int',
                 'clear_records_on_write': 'bool'},
         ensures={'C17': [file_init_post]},
         modifies=['self.id', 'self.model', 'self.priority', 'self.frequency', 'self.start', 'self.end',
                   'field:self.records', 'new:list[any]', 'self.filename', 'self.filemode', 'self.write_count',
                   'self.last_write', 'self.clear_records_on_write'],
         native=False, props=['C17'])


def concat_is(F, R, C):
    """C == F ++ R (element by element)."""
    return (len(C) == len(F) + len(R) and all(same(C[j], F[j]) for j in range(len(F)))
            and all(same(C[len(F) + j], R[j]) for j in range(len(R)))
            and all(same(C[j], R[j - len(F)]) for j in range(len(F), len(C))))


def File_rep(self):
    """Nothing lost, nothing duplicated: text already written ++ records still held == everything collected so far;
    the flush counter stays within 0 .. write_count."""
    F = file_log(self.filename)
    C = ghost().collected
    return (concat_is(F, self.records, C) and 0 <= self.last_write and self.last_write <= self.write_count
            and self.filemode == 'a' and self.clear_records_on_write
            and not same_obj(F, self.records) and not same_obj(F, C) and not same_obj(C, self.records))


def collect_abstract_post(self, old):
    """Assumed for user collect(): appends zero or more records to self.records (the ghost log records the same)."""
    R = self.records
    R0 = old.self.records
    C = ghost().collected
    C0 = old.ghost.collected
    return (len(R) >= len(R0) and all(same(R[j], R0[j]) for j in range(len(R0)))
            and len(C) == len(C0) + len(R) - len(R0) and all(same(C[j], C0[j]) for j in range(len(C0)))
            and all(same(C[len(C0) + j], R[len(R0) + j]) for j in range(len(R) - len(R0)))
            and all(same(C[j], R[j - len(C0) + len(R0)]) for j in range(len(C0), len(C)))
            and all(same(R[j], C[j - len(R0) + len(C0)]) for j in range(len(R0), len(R)))
            and same_obj(C, C0))


contract('Collectors.Collector.collect',
         params={'self': 'ref:Collector'}, kind='abstract',
         ensures={'C17': [collect_abstract_post]},
         modifies=['self.records', 'ghost().collected'],
         assumes=['Collector.collect (user code) only appends records to self.records'])


def file_exec_post(self, old):
    """A flush happens exactly at every (write_count + 1)-th collection; then everything held is written in order."""
    F = file_log(self.filename)
    F0 = was(old, file_log(self.filename))
    flushed = old.self.last_write + 1 > self.write_count
    return (implies(flushed, self.last_write == 0 and len(self.records) == 0
                    and len(F) == len(ghost().collected))
            and implies(not flushed, self.last_write == old.self.last_write + 1 and same_elems(F, F0)))


contract('Collectors.FileCollector.execute',
         params={'self': 'ref:FileCollector'},
         requires=[File_rep],
         ensures={'C17': [File_rep, file_exec_post]},
         modifies=['self.records', 'self.last_write', 'ghost().collected', 'file_log(self.filename)', 'new:obj:File'],
         native=False, props=['C17'])


def write_records_post(self, old):
    F = file_log(self.filename)
    F0 = was(old, file_log(self.filename))
    return concat_is(F0, self.records, F)


def write_inv(self, old, i):
    F = file_log(self.filename)
    F0 = was(old, file_log(self.filename))
    R = self.records
    return (0 <= i and i <= len(R) and len(F) == len(F0) + i and all(same(F[j], F0[j]) for j in range(len(F0)))
            and all(same(F[len(F0) + j], R[j]) for j in range(0, i)))


def write_requires(self):
    return not same_obj(file_log(self.filename), self.records)


contract('Collectors.FileCollector.write_records',
         params={'self': 'ref:FileCollector'},
         requires=[write_requires],
         ensures={'C17': [write_records_post]},
         modifies=['file_log(self.filename)', 'new:obj:File'],
         loops={0: dict(invariant=[(write_inv, ['C17'])], index='i', modifies=['file_log(self.filename)'])},
         native=False, props=['C17'])


def agent_collector_init_post(self, model, agentFunc, compositeFunc, includeTimstep, id, priority, frequency, start,
                              end, old):
    return (same(self.agentFunc, agentFunc) and same(self.compositeFunc, compositeFunc)
            and self.includeTimestep == includeTimstep and self.id == id and self.priority == priority
            and self.frequency == frequency and self.start == start and self.end == end and len(self.records) == 0
            and self.model is model)


contract('Collectors.AgentCollector.__init__',
         params={'self': 'ref:AgentCollector', 'model': 'ref:Model', 'agentFunc': 'any', 'compositeFunc': 'any',
                 'includeTimstep': 'bool', 'id': 'str', 'priority': 'int', 'frequency': 'int', 'start': 'int',
                 'end': 'int'},
         ensures={'C17': [agent_collector_init_post]},
         modifies=['self.id', 'self.model', 'self.priority', 'self.frequency', 'self.start', 'self.end',
                   'field:self.records', 'new:list[any]', 'self.agentFunc', 'self.compositeFunc',
                   'self.includeTimestep'],
         native=False, props=['C17'])
