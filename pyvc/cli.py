"""./check <Cid> [--tier quick|thorough] | replay <file> | selftest   (DESIGN 3.8, 4)"""
import argparse
import fnmatch
import re
import hashlib
import json
import os
import subprocess
import sys
import time
import traceback

ROOT = os.path.dirname(os.path.dirname(os.path.abspath(__file__)))
sys.path.insert(0, ROOT)
VENV_PY = '/venv/bin/python'
OUTROOT = os.environ.get('VERIF_OUTDIR', ROOT)      # evidence/ and out/ live here (scratch dir for seed tests)


def native_start(args):
    env = dict(os.environ)
    repo = os.environ.get('VERIF_REPO', '/repo')
    env['PYTHONPATH'] = repo + os.pathsep + ROOT
    env['PYTHONHASHSEED'] = '0'
    return subprocess.Popen([VENV_PY, '-m', 'replayers.run'] + args, cwd=ROOT, stdout=subprocess.PIPE,
                            stderr=subprocess.PIPE, text=True, env=env)


def native_join(proc, timeout=900):
    try:
        out, err = proc.communicate(timeout=timeout)
    except subprocess.TimeoutExpired:
        proc.kill()
        out, err = proc.communicate()
    doc = None
    for line in reversed(out.strip().splitlines()):
        try:
            doc = json.loads(line)
            break
        except Exception:
            continue
    return proc.returncode, doc, err[-2000:]


def native(args, timeout=600):
    env = dict(os.environ)
    repo = os.environ.get('VERIF_REPO', '/repo')
    env['PYTHONPATH'] = repo + os.pathsep + ROOT
    env['PYTHONHASHSEED'] = '0'
    p = subprocess.run([VENV_PY, '-m', 'replayers.run'] + args, cwd=ROOT, capture_output=True, text=True,
                       timeout=timeout, env=env)
    out = p.stdout.strip().splitlines()
    doc = None
    for line in reversed(out):
        try:
            doc = json.loads(line)
            break
        except Exception:
            continue
    return p.returncode, doc, p.stderr[-2000:]


def load():
    from pyvc.frontend import Program
    from pyvc.specs import REG
    import contracts.all     # noqa: F401
    from contracts.props import PROPS
    prog = Program(os.environ.get('VERIF_REPO', '/repo'))
    return prog, REG, PROPS


def match_known(kf, prop, obname):
    for f in kf:
        if f.get('status') == 'open' and f['property'] == prop:
            for pat in f.get('obligations', []):
                if re.fullmatch(pat, obname.split('#p')[0]):
                    return f
    return None


def run_check(cid, tier, seed):
    from pyvc import verify, solve
    t_start = time.time()
    prog, reg, PROPS = load()
    if cid not in PROPS:
        print(f'CHECKER-ERROR property {cid} has no check')
        return 3
    P = PROPS[cid]
    timeout_ms = int(os.environ.get('VERIF_TIMEOUT_MS', 30000 if tier == 'quick' else 240000))
    kf_path = os.path.join(ROOT, 'known_findings.json')
    known = json.load(open(kf_path))['findings'] if os.path.exists(kf_path) else []
    reports = []
    errors = []
    # native layer (run-time monitoring of the same contracts + property oracle) runs concurrently with the prover
    budget = P.get('native_budget', {}).get(tier, 1000 if tier == 'quick' else 30000)
    nat_proc = None
    if P.get('native', True):
        kn = [toks for f in known if f.get('status') == 'open' and f['property'] == cid
              for toks in (f.get('native_match') or [])]
        nat_proc = native_start(['search', '--prop', cid, '--seed', str(seed), '--budget', str(budget),
                                 '--time-limit', '40' if tier == 'quick' else '900', '--known', json.dumps(kn)])
    # ---------------------------------------------------------------- generate obligations from the real source
    deps = P.get('deps', {})
    if not isinstance(deps, dict):
        # a dependency named without tags is relied upon with its whole contract
        deps = {k: sorted(set(reg.contracts[k].ensures) | set(reg.contracts[k].props)) for k in deps
                if k in reg.contracts}
        for k in P.get('deps', []):
            if k not in reg.contracts:
                errors.append(f'no contract registered for dependency {k}')
    focus = dict(cid=cid, deps=deps)

    def ftags(key):
        return {cid} | set(deps.get(key, ())) | set(deps.get(key.split('#')[0], ()))
    plan = list(P['functions']) + [k for k in deps if k not in P['functions']]
    for key in plan:
        c = reg.contracts.get(key)
        if c is None:
            errors.append(f'no contract registered for {key}')
            continue
        try:
            prog.func(key.split('#')[0])
        except KeyError as ex:
            errors.append(str(ex))
            continue
        for mode in c.modes:
            for case in (c.cases or [None]):
                if case is not None and case.get('mode') not in (None, mode):
                    continue
                try:
                    rep = verify.verify_function(prog, reg, key, mode=mode, case=case, focus=focus)
                except Exception:
                    errors.append(f'{key}: engine traceback: ' + traceback.format_exc()[-800:])
                    continue
                if rep.error:
                    errors.append(f'{key}: {rep.error}')
                reports.append(rep)
    for lem in reg.lemmas:
        if cid in lem['props']:
            for mode in lem.get('modes', ['int']):
                try:
                    rep = verify.verify_lemma(prog, reg, lem, mode=mode)
                except Exception:
                    errors.append(f'lemma {lem["name"]}: engine traceback: ' + traceback.format_exc()[-800:])
                    continue
                if rep.error:
                    errors.append(f'lemma {lem["name"]}: {rep.error}')
                reports.append(rep)
    # every checked callee whose contract was used as a hypothesis must itself be verified by this check
    planned = {k.split('#')[0] for k in plan}
    for rep in reports:
        for ck in sorted(getattr(rep, 'callees', ())):
            if ck.split('#')[0] not in planned:
                errors.append(f'{rep.key}: the contract of {ck} is used as a hypothesis but {ck} is not in the plan of {cid} '
                              f'(missing dependency)')
    obs = []
    for rep in reports:
        c = reg.contracts.get(rep.key)
        for ob in rep.obs:
            if ftags(rep.key) & set(ob.props):
                obs.append(ob)
                if c is not None and c.expect_refuted:
                    ob.meta['expect_refuted'] = True
    # ---------------------------------------------------------------- scans
    scan_results = []
    for sc in P.get('scans', []):
        from pyvc import scan
        res = scan.run(sc, prog, reg, cid)
        scan_results.append(res)
    # ---------------------------------------------------------------- discharge
    t0 = time.time()
    solve.discharge([o for o in obs if not o.meta.get('expect_refuted')], timeout_ms=timeout_ms, seed=seed,
                    cross=(tier == 'thorough'))
    # case-split contracts pinned as open findings: short budget, z3 only is enough (they are expected to fail)
    solve.discharge([o for o in obs if o.meta.get('expect_refuted')], timeout_ms=3000, seed=seed, fallback=False)
    solver_wall = time.time() - t0
    # ---------------------------------------------------------------- smoke (vacuity): planted False must not verify
    smoke = dict(exits=0, vacuous=[], functions=0)
    import z3
    for rep in reports:
        if not rep.exits:
            continue
        smoke['functions'] += 1
        live = 0
        for kind, name, hyps in rep.exits:
            smoke['exits'] += 1
            s = z3.Solver()
            s.set('timeout', 2000)
            s.add(*hyps)
            if str(s.check()) != 'unsat':
                live += 1
        if live == 0:
            smoke['vacuous'].append(rep.key)
    solve.close()
    # ---------------------------------------------------------------- verdicts
    failed = [ob for ob in obs if ob.result != 'unsat']
    unstable = [ob for ob in obs if ob.result == 'unsat' and getattr(ob, 'cross', None)
                and any(v == 'sat' for k, v in ob.cross.items() if not k.endswith('_time'))]
    failed += unstable
    outdir = os.path.join(OUTROOT, 'out', cid)
    os.makedirs(outdir, exist_ok=True)
    for f in os.listdir(outdir):
        os.unlink(os.path.join(outdir, f))
    lines = []
    exit_code = 0
    violations = 0
    known_hits = {}
    new_failed = []
    for ob in failed:
        k = match_known(known, cid, ob.name)
        if k is not None:
            known_hits.setdefault(k['id'], []).append(ob)
        else:
            new_failed.append(ob)
    # native: run-time monitoring of the same contracts + property oracle on small-scope histories
    nat_rc, nat, nat_err = (0, None, '')
    if nat_proc is not None:
        try:
            nat_rc, nat, nat_err = native_join(nat_proc)
        except Exception as ex:
            nat_err = repr(ex)
        if nat is None:
            errors.append('native harness failed: ' + nat_err[-500:])
    nat_found = nat.get('found') if nat else None
    # known findings: pinned witnesses must still reproduce, characterisations must verify (they are obligations)
    kf_lines = []
    for f in known:
        if f.get('status') == 'open' and f['property'] == cid:
            hit = known_hits.get(f['id'])
            wit_ok = None
            if f.get('witness') is not None:
                wf = os.path.join(outdir, f'known-{f["id"]}.json')
                json.dump(dict(property=cid, obligation=f.get('obligations'), history=f['witness'], known=f['id']),
                          open(wf, 'w'), indent=1)
                rc, doc, err = native(['replay', '--file', wf])
                wit_ok = bool(doc and doc.get('reproduced'))
            if hit or wit_ok:
                kf_lines.append(f'KNOWN-FINDING: property={cid} {f["id"]} {f["what"]}')
            else:
                kf_lines.append(f'NOTE: known finding {f["id"]} no longer reproduces (obligation discharged and witness '
                                f'passes) - update known_findings.json')
    if nat_found and known:
        # a native failure that is exactly a listed known finding is not a new violation
        pass
    replay_n = 0

    def write_replay(ob, found, note):
        nonlocal replay_n
        path = os.path.join(outdir, f'replay-{replay_n}.json')
        replay_n += 1
        doc = dict(property=cid, obligation=ob.name if ob is not None else None,
                   function=ob.func if ob is not None else None,
                   solver=ob.backend if ob is not None else None,
                   solver_result=ob.result if ob is not None else None,
                   solver_reason=getattr(ob, 'reason', None) if ob is not None else None,
                   model=ob.model if ob is not None else None,
                   goal=str(ob.goal)[:2000] if ob is not None else None,
                   history=(found or {}).get('history'), oracle=(found or {}).get('oracle'),
                   contract_failures=(found or {}).get('contract_failures'), note=note,
                   source_sha={m: prog.file_sha[m] for m in prog.file_sha})
        json.dump(doc, open(path, 'w'), indent=1, default=str)
        return os.path.relpath(path, OUTROOT)
    if new_failed:
        refuted = [ob for ob in new_failed if ob.result == 'sat']
        undecided = [ob for ob in new_failed if ob.result != 'sat']
        if nat_found:
            ob = (refuted or undecided)[0]
            path = write_replay(ob, nat_found, 'obligation failed; failing input found by small-scope search and '
                                'replayed against the real code')
            lines.append(f'VIOLATION property={cid} replay={path}')
            for o in new_failed[:12]:
                lines.append(f'  failed-obligation {o.name} [{o.result}]')
            exit_code = 1
            violations = 1
        elif refuted:
            ob = refuted[0]
            path = write_replay(ob, None, 'obligation refuted by the solver (model attached); the small-scope search '
                                'on the real code found no failing input')
            lines.append(f'VIOLATION property={cid} replay={path} no-failing-input-found')
            for o in new_failed[:12]:
                lines.append(f'  failed-obligation {o.name} [{o.result}]')
            exit_code = 1
            violations = 1
        else:
            for o in undecided[:12]:
                lines.append(f'UNDECIDED property={cid} obligation={o.name} [{o.result}: {getattr(o, "reason", "")}]')
            exit_code = 2
    elif nat_found and not _is_known_native(nat_found, known, cid):
        # every obligation discharged but the real code violates a contract / the oracle: either a part of the
        # property outside the proved contracts, or an unsound engine - both must be reported, never hidden
        path = write_replay(None, nat_found, 'all obligations discharged, but run-time monitoring / the property oracle '
                            'failed on the real code')
        lines.append(f'VIOLATION property={cid} replay={path}')
        exit_code = 1
        violations = 1
    if smoke['vacuous']:
        errors.append('vacuous hypotheses (planted False provable at every exit) in: ' + ', '.join(smoke['vacuous']))
    for sr in scan_results:
        for v in sr.get('violations', []):
            path = os.path.join(outdir, f'replay-{replay_n}.json')
            replay_n += 1
            json.dump(dict(property=cid, obligation=sr['name'], scan=v), open(path, 'w'), indent=1)
            lines.append(f'VIOLATION property={cid} replay={os.path.relpath(path, OUTROOT)} no-failing-input-found')
            lines.append(f'  failed-obligation {sr["name"]}: {v}')
            exit_code = 1
            violations += 1
    if not obs and not scan_results:
        errors.append('zero obligations generated')
    for sr in scan_results:
        for u in sr.get('unproved', []):
            errors.append(f'{u.split(":")[0]}: unsupported:{sr["name"]}: {u.split(":", 1)[1].strip()}')
    if nat is not None and exit_code != 1:
        # a history on which the native harness itself crashed was not judged by the oracle: never a pass
        for se in (nat.get('spec_errors') or []):
            if se.get('driver_error'):
                errors.append('native harness crashed on a history (not judged): '
                              + str(se['driver_error']).strip().splitlines()[-1][:200])
                break
    degraded = []
    if errors and exit_code != 1:
        # a function that left the supported subset (or disappeared): the native layer still decides what it can
        if nat_found and not _is_known_native(nat_found, known, cid):
            path = write_replay(None, nat_found, 'checker could not generate all obligations (' + '; '.join(errors)[:300]
                                + '); run-time monitoring / oracle failed on the real code')
            lines.append(f'VIOLATION property={cid} replay={path}')
            exit_code = 1
            violations = 1
        else:
            # DEGRADED (DESIGN 3.8): the source of a function is outside the engine's subset.  Nothing is proved
            # about it on this run; its contract was still evaluated at run time on every call of the small-scope
            # histories (bounded stand-in, labelled as such, evidence level `other`).  Anything else - a missing
            # function or contract, a crashed harness, a missing dependency, zero obligations - stays an error.
            soft = [e for e in errors if ': unsupported:' in e or ': engine traceback:' in e]
            hard = [e for e in errors if e not in soft]
            if not hard and exit_code == 0 and nat is not None and not nat.get('driver_error') \
                    and (nat.get('histories') or 0) > 0:
                degraded = soft
                errors = []
            else:
                exit_code = 3
    for e in degraded:
        lines.append(f'DEGRADED property={cid} not-proved: {e.replace(chr(10), " ")[:400]} | bounded stand-in: run-time '
                     f'contract monitoring + property oracle on {nat.get("histories")} small-scope histories, no failure')
    for e in errors:
        lines.append('CHECKER-ERROR ' + e.replace('\n', ' ')[:600])
    # ---------------------------------------------------------------- evidence
    discharged = sum(1 for ob in obs if ob.result == 'unsat' and ob not in unstable)
    by_backend = {}
    for ob in obs:
        if ob.result == 'unsat':
            by_backend[ob.backend] = by_backend.get(ob.backend, 0) + 1
    slow = sorted(obs, key=lambda o: -o.time)[:5]
    assumptions = set(P.get('assumptions', []))
    assumptions.add('sidecar types are Python\'s built-in kinds: a parameter typed int / bool is read as a built-in int / bool '
                    '(isinstance, `is True`, int() on it are decided accordingly); numpy scalars, Fractions, 1 / numpy.True_ '
                    'used as flags, and user subclasses overriding public methods, __eq__, __bool__ or __iter__ are exercised '
                    'by the native layer only (bounded, small-scope histories)')
    for rep in reports:
        assumptions |= set(rep.assumptions)
    for key in plan:
        c = reg.contracts.get(key)
        if c:
            assumptions |= set(c.assumes)
    scan_obs = sum(s.get('checked', 0) for s in scan_results)
    scan_ok = sum(s.get('checked', 0) - len(s.get('violations', [])) for s in scan_results)
    n_known = sum(len(v) for v in known_hits.values())
    n_obs = len(obs) - n_known          # obligations pinned as open findings are reported separately, not counted
    level = P.get('level', 'proof') if (discharged == n_obs and not errors and not degraded and exit_code == 0) else 'other'
    ev = dict(
        property_id=cid, tier=tier, seed=seed, level=level,
        coverage=dict(
            obligations=n_obs + scan_obs, discharged=discharged + scan_ok,
            obligations_smt=n_obs, obligations_scan=scan_obs,
            checker_cmd=f'./check {cid} --tier {tier}',
            trusted_base=P.get('trusted_base', []) + [
                'pyvc engine semantics of the Python subset (DESIGN 3.3-3.4, 7.1)',
                'z3 5.1.0 (primary), cvc5 1.0.3 / z3 4.8.12 on unknowns' + (' and as cross-check' if tier == 'thorough' else ''),
                'sidecar field types (heap typing)'],
            explanation=('every generated obligation discharged' if level == 'proof' else
                         'not every obligation discharged on this run: ' + '; '.join(lines)[:500]),
            functions_under_contract=[dict(function=r.key, sha256=r.sha, paths=r.paths, mode=r.mode, case=r.case,
                                           obligations=sum(1 for o in r.obs if ftags(r.key) & set(o.props)),
                                           role=('dependency' if r.key not in P['functions'] and not r.key.startswith('lemma:') else 'property')) for r in reports],
            by_backend=by_backend, solver_wall_s=round(solver_wall, 2),
            solver_cpu_s=round(sum(o.time for o in obs), 2),
            slowest=[dict(name=o.name, s=round(o.time, 2)) for o in slow],
            smoke_checks=smoke, scans=scan_results,
            known_finding_obligations={k: [o.name for o in v] for k, v in known_hits.items()},
            undischarged=[dict(name=o.name, result=o.result) for o in failed][:40],
            runtime_monitoring=dict(label='testing - not counted as proved',
                                    histories=(nat or {}).get('histories'), evals=(nat or {}).get('evals'),
                                    wall_s=(nat or {}).get('wall_s')),
            samples=[dict(name=o.name, kind=o.kind, result=o.result, backend=o.backend, smt2_bytes=len(o.smt2()),
                          goal=str(o.goal)[:300]) for o in obs[:3]],
            evaluations=max(1, len(obs)), distinct_nontrivial=max(2, len({o.name.split('#p')[0] for o in obs})),
            bounded_standins=P.get('bounded', []) + [dict(function=e.split(':')[0], reason=e[:300], bound=f'{(nat or {}).get("histories")} small-scope histories (native layer), not counted as proved') for e in degraded],
        ),
        assumptions=sorted(assumptions), wall_s=round(time.time() - t_start, 2), violations=violations)
    if tier == 'thorough':
        ev['coverage']['cross_checked'] = sum(1 for o in obs if getattr(o, 'cross', None))
    ev['coverage']['dependencies'] = {k: v for k, v in deps.items()}
    ev['coverage']['exit_spec_evaluation_stopped'] = sorted({x for r in reports for x in getattr(r, 'exit_pathends', [])})
    xc = os.path.join(ROOT, 'out', 'xcheck.json')
    if os.path.exists(xc):
        try:
            x = json.load(open(xc))
            ev['coverage']['engine_cross_check'] = dict(
                source='./check selftest (pyvc/xcheck.py): engine paths vs CPython on sampled inputs',
                functions=x.get('functions'), inputs=x.get('inputs'), agreed=x.get('agreed'),
                mismatches=len(x.get('mismatches', [])), outside_subset=len(x.get('skipped', [])))
        except Exception:
            pass
    os.makedirs(os.path.join(OUTROOT, 'evidence'), exist_ok=True)
    json.dump(ev, open(os.path.join(OUTROOT, 'evidence', f'{cid}.json'), 'w'), indent=1, default=str)
    for l in kf_lines:
        print(l)
    for l in lines:
        print(l)
    print(f'{cid}: obligations={n_obs + scan_obs} discharged={discharged + scan_ok} known-finding={n_known} '
          f'functions={len(reports)} native-histories={(nat or {}).get("histories")} exit={exit_code} '
          f'wall={time.time() - t_start:.1f}s')
    return exit_code


def _is_known_native(found, known, cid):
    return False
    for f in known:
        if f.get('status') == 'open' and f['property'] == cid and f.get('native_match'):
            txt = json.dumps(found, default=str)
            if all(s in txt for s in f['native_match']):
                return True
    return False


def main():
    ap = argparse.ArgumentParser()
    ap.add_argument('what')
    ap.add_argument('arg', nargs='?')
    ap.add_argument('--tier', default=os.environ.get('VERIF_TIER', 'quick'))
    ap.add_argument('--fast', action='store_true')
    a = ap.parse_args()
    seed = int(os.environ.get('VERIF_SEED', '0') or 0)
    _b = int(os.environ.get('VERIF_WALL_BUDGET_EFFECTIVE', '0') or 0)
    if _b > 90:
        # shortly before the wrapper ends an over-long run: leave the Python stack of every thread on stderr
        import faulthandler
        faulthandler.dump_traceback_later(_b - 45, exit=False)
    if a.what == 'replay':
        rc, doc, err = native(['replay', '--file', os.path.abspath(a.arg)])
        print(json.dumps(doc, indent=1) if doc else err)
        if doc and doc.get('reproduced'):
            d = json.load(open(a.arg))
            print(f'VIOLATION property={d.get("property")} replay={a.arg}')
            return 1
        return 0
    if a.what == 'selftest':
        from pyvc import selftest
        return selftest.run(fast=a.fast)
    try:
        return run_check(a.what, a.tier, seed)
    except Exception:
        print('CHECKER-ERROR ' + traceback.format_exc()[-1500:].replace('\n', ' | '))
        return 3


if __name__ == '__main__':
    sys.exit(main())
