"""Expression evaluation of the symbolic executor (mixin)."""
import ast
import sys
import z3
from . import types as ty
from .values import (VRecord, I, B, V, VInt, VBool, VNum, VStr, VCls, VNone, VRef, VTuple, VFunc, VRange, VView,
                     VModule, VOld, VExc, VGhost, Unsupported)
from .heap import PyRaise, PathEnd

EXC_BUILTINS = {'KeyError', 'ValueError', 'TypeError', 'IndexError', 'AttributeError', 'Exception',
                'NotImplementedError', 'ZeroDivisionError', 'StopIteration', 'RuntimeError'}


class ExprMixin:
    # ------------------------------------------------------------------ helpers
    def truth(self, v):
        if isinstance(v, VBool):
            return v.term
        if isinstance(v, VInt):
            return v.term != 0
        if isinstance(v, VNum):
            return v.term != 0
        if isinstance(v, VNone):
            return z3.BoolVal(False)
        if isinstance(v, VRef):
            if isinstance(v.typ, ty.TList):
                return z3.If(v.term == 0, z3.BoolVal(False), self.llen(v) != 0) if v.nullable else self.llen(v) != 0
            if isinstance(v.typ, ty.TDict):
                return self.d_parts(v)[4] != 0
            if v.typ == ty.ANY:
                f = z3.Function('truthy', I, B)
                return f(v.term)
            if isinstance(v.typ, ty.TRef) and v.typ.cls in self.prog.classes:
                # Python truthiness of an object: __bool__, else __len__ != 0, else True
                open_cls = v.typ.cls not in self.final_classes and v.typ.cls not in ('_MetaAgent',)
                for meth in ('__bool__', '__len__'):
                    fi = self.prog.find_method(v.typ.cls, meth)
                    if fi is not None and open_cls and not self.spec_mode:
                        # the library's own answer - but a user subclass may define __bool__ (or, when the library
                        # only has __len__, either of them): the truth value of an instance is the subclass's to decide
                        f = z3.Function('truthy_instance', I, B)
                        return z3.And(v.term != 0, f(v.term)) if v.nullable else f(v.term)
                    if fi is not None:
                        def call(fi=fi, meth=meth):
                            r = self.call_function(fi, [VRef(v.term, self.non_null(v.typ), v.st)], {})
                            return VBool(self.truth(r) if meth == '__bool__' else self.arith_term(r) != 0)
                        t = self.eval_pure(call).term
                        return z3.And(v.term != 0, t) if v.nullable else t
                if v.typ.cls not in self.final_classes and v.typ.cls not in ('_MetaAgent',):
                    # a user subclass may define __bool__ / __len__: the truth value of an instance is not
                    # determined by the library (only `is None` / `is not None` tests are)
                    f = z3.Function('truthy_instance', I, B)
                    return z3.And(v.term != 0, f(v.term))
            return v.term != 0
        if isinstance(v, VFunc) and v.kind == 'class' and v.name in self.prog.classes and self.prog.metaclass_of(v.name):
            fi = self.prog.find_method(self.prog.metaclass_of(v.name), '__len__')
            if fi is not None:
                r = self.eval_pure(lambda: self.call_function(fi, [self.class_ref(v)], {}))
                return self.arith_term(r) != 0
        if isinstance(v, (VFunc, VCls)):
            return z3.BoolVal(True)
        if isinstance(v, VTuple):
            return z3.BoolVal(len(v.items) > 0)
        raise Unsupported(f'truth of {type(v).__name__}')

    def const(self, c):
        if isinstance(c, bool):
            return VBool(c)
        if isinstance(c, int):
            return VInt(c)
        if isinstance(c, float):
            if c == int(c) and self.ctx.num == I:
                return VNum(z3.IntVal(int(c)))
            if self.ctx.num == I:
                raise Unsupported('non-integral float literal in int mode')
            return VNum(z3.RealVal(repr(c)))
        if isinstance(c, str):
            return VStr(self.ctx.strid(c), c)
        if c is None:
            return VNone()
        raise Unsupported(f'constant {c!r}')

    def values_equal(self, a, b, identity=False):
        """z3 Bool for Python `a == b` (identity for objects without __eq__)."""
        if isinstance(a, VTuple) or isinstance(b, VTuple):
            if isinstance(a, VTuple) and isinstance(b, VTuple):
                if len(a.items) != len(b.items):
                    return z3.BoolVal(False)
                return z3.And([self.values_equal(x, y) for x, y in zip(a.items, b.items)] or [z3.BoolVal(True)])
            other = b if isinstance(a, VTuple) else a
            tup = a if isinstance(a, VTuple) else b
            if isinstance(other, VRef) and other.typ == ty.ANY:
                return other.term == self.box_tuple(tup)
            return z3.BoolVal(False)
        if isinstance(a, VNone) and isinstance(b, VNone):
            return z3.BoolVal(True)
        if isinstance(a, VNone) or isinstance(b, VNone):
            o = b if isinstance(a, VNone) else a
            if isinstance(o, VRef):
                return o.term == 0 if o.nullable else z3.BoolVal(False)
            return z3.BoolVal(False)
        num = (VInt, VNum, VBool)
        if isinstance(a, num) and isinstance(b, num):
            if isinstance(a, VBool) and isinstance(b, VBool):
                return a.term == b.term
            x, y = self.arith_pair(a, b)
            return x == y
        if isinstance(a, VFunc) and a.kind == 'class':
            a = VCls(a.clsterm, a.name)
        if isinstance(b, VFunc) and b.kind == 'class':
            b = VCls(b.clsterm, b.name)
        if isinstance(a, VFunc) and a.kind == 'builtin' and self.cls_id(a.name) is not None:
            a = VCls(z3.IntVal(self.cls_id(a.name)), a.name)
        if isinstance(b, VFunc) and b.kind == 'builtin' and self.cls_id(b.name) is not None:
            b = VCls(z3.IntVal(self.cls_id(b.name)), b.name)
        if isinstance(a, VRef) and a.typ == ty.ANY and isinstance(b, num):
            return a.term == self.coerce(b, ty.ANY)
        if isinstance(b, VRef) and b.typ == ty.ANY and isinstance(a, num):
            return b.term == self.coerce(a, ty.ANY)
        if type(a) is type(b) or (isinstance(a, (VRef, VStr, VCls)) and isinstance(b, (VRef, VStr, VCls))):
            if hasattr(a, 'term') and hasattr(b, 'term') and a.term.sort() == b.term.sort():
                if isinstance(a, VRef) and isinstance(b, VRef) and not identity:
                    for x in (a, b):
                        if isinstance(x.typ, (ty.TList, ty.TDict)):
                            raise Unsupported('== on containers')
                return a.term == b.term
        if isinstance(a, (VStr,)) and isinstance(b, num) or isinstance(b, VStr) and isinstance(a, num):
            return z3.BoolVal(False)
        raise Unsupported(f'== between {type(a).__name__} and {type(b).__name__}')

    def arith_pair(self, a, b):
        x, y = self.arith_term(a), self.arith_term(b)
        if x.sort() != y.sort():
            if x.sort() == I:
                x = z3.ToReal(x)
            if y.sort() == I:
                y = z3.ToReal(y)
        return x, y

    def arith_term(self, v):
        if isinstance(v, VBool):
            return z3.If(v.term, z3.IntVal(1), z3.IntVal(0))
        if isinstance(v, (VInt, VNum)):
            return v.term
        if isinstance(v, VRef) and v.typ == ty.ANY:
            # scores / opaque numbers: unboxed through an uninterpreted projection
            f = z3.Function('unbox_num', I, self.ctx.num)
            return f(v.term)
        raise Unsupported(f'arithmetic on {type(v).__name__}')

    def mk_num(self, term, *operands):
        if term.sort() == I and all(isinstance(o, (VInt, VBool)) for o in operands):
            return VInt(term)
        return VNum(term)

    # ------------------------------------------------------------------ eval
    def eval(self, e):
        m = getattr(self, 'e_' + type(e).__name__, None)
        if m is None:
            raise Unsupported(f'expression {type(e).__name__}')
        return m(e)

    def e_Constant(self, e):
        return self.const(e.value)

    def e_JoinedStr(self, e):
        return VStr(self.fresh('fstr'), None)      # DESIGN 3.2(4): message text is opaque, parts not evaluated

    def e_Name(self, e):
        if self.fresh_acc and self.frame is not None:
            self.fresh_acc.pop((id(self.frame), e.id), None)     # the name is read: no longer a pristine accumulator
        return self.lookup(e.id)

    def lookup(self, name):
        fr = self.frame
        env = fr
        while env is not None:
            if name in env.locals:
                return env.locals[name]
            env = env.closure
        return self.global_name(name, fr.module)

    def global_name(self, name, module):
        prog = self.prog
        if module in self.spec_globals and name in self.spec_globals[module]:
            return self.spec_global_value(module, name)
        if name in prog.module_funcs.get(module, {}):
            return VFunc('function', fi=prog.module_funcs[module][name])
        if name in prog.classes:
            return self.class_value(name)
        imp = prog.module_imports.get(module, {})
        if name in imp:
            origin = imp[name]
            if origin == 'sys.maxsize':
                return VInt(sys.maxsize)
            if origin.startswith('ECAgent.') and origin.split('.')[-1] in prog.classes:
                return self.class_value(origin.split('.')[-1])
            if origin == 'ECAgent.Tags':
                return VModule('Tags')
            return VFunc('external', name=origin, self=None)
        if name in prog.module_globals.get(module, {}):
            return self.module_global(module, name)
        if name in EXC_BUILTINS:
            return VFunc('excclass', name=name)
        if name in ('len', 'range', 'min', 'max', 'abs', 'int', 'float', 'isinstance', 'type', 'list', 'dict', 'tuple',
                    'enumerate', 'hasattr', 'getattr', 'globals', 'str', 'super', 'sum', 'all', 'any', 'bool', 'open',
                    'object', 'sorted', 'set', 'frozenset', 'id', 'hash', 'iter', 'next', 'zip', 'print', 'callable'):
            return VFunc('builtin', name=name)
        raise Unsupported(f'name {name}')

    def class_value(self, name):
        return VFunc('class', name=name, clsterm=z3.IntVal(self.cls_id(name)))

    def e_Tuple(self, e):
        return VTuple([self.eval(x) for x in e.elts])

    def e_List(self, e):
        items = [self.eval(x) for x in e.elts]
        t = self.expect_type(e) or (ty.TList(self.type_of(items[0])) if items else None)
        if t is None:
            t = ty.parse('list[any]')          # untyped empty display: elements are opaque values
        return self.new_list(t, items)

    def e_Dict(self, e):
        if e.keys:
            if all(isinstance(k, ast.Constant) and isinstance(k.value, str) for k in e.keys):
                return VRecord({k.value: self.eval(v) for k, v in zip(e.keys, e.values)})
            t = self.expect_type(e)
            if isinstance(t, ty.TDict) and all(k is not None for k in e.keys):
                self._expect = None
                d = self.new_dict(t)
                for k, v in zip(e.keys, e.values):        # later duplicates overwrite, first insertion keeps its place
                    self.dict_set(d, self.eval(k), self.eval(v))
                return d
            raise Unsupported('non-empty dict display')
        t = self.expect_type(e)
        if t is None:
            raise Unsupported('dict literal of unknown type (add a sidecar local type)')
        return self.new_dict(t)

    def type_of(self, v):
        if isinstance(v, VInt):
            return ty.INT
        if isinstance(v, VBool):
            return ty.BOOL
        if isinstance(v, VNum):
            return ty.NUM
        if isinstance(v, VStr):
            return ty.STR
        if isinstance(v, VCls):
            return ty.CLS
        if isinstance(v, VRef):
            return v.typ
        if isinstance(v, VTuple):
            return ty.TTuple([self.type_of(x) for x in v.items])
        if isinstance(v, VNone):
            return ty.ANY
        raise Unsupported(f'type of {type(v).__name__}')

    def e_UnaryOp(self, e):
        v = self.eval(e.operand)
        if isinstance(e.op, ast.Not):
            return VBool(z3.Not(self.truth(v)))
        if isinstance(e.op, ast.USub):
            return self.mk_num(-self.arith_term(v), v)
        if isinstance(e.op, ast.UAdd):
            return v
        raise Unsupported('unary op')

    def e_BinOp(self, e):
        a, b = self.eval(e.left), self.eval(e.right)
        op = e.op
        if isinstance(op, ast.Mult) and isinstance(a, VRef) and isinstance(a.typ, ty.TList):
            return self.list_repeat(a, b)
        if isinstance(op, ast.Mod) and isinstance(a, VStr):
            return VStr(self.fresh('fmt'), None)
        x, y = self.arith_pair(a, b)
        if isinstance(op, ast.Add):
            return self.mk_num(x + y, a, b)
        if isinstance(op, ast.Sub):
            return self.mk_num(x - y, a, b)
        if isinstance(op, ast.Mult):
            return self.mk_num(x * y, a, b)
        if isinstance(op, ast.Mod):
            self.oblige_safe('ZeroDivisionError', y != 0, 'mod')
            if x.sort() == I:
                # Python floor-mod: sign follows the divisor.  z3 mod is Euclidean (result >= 0).
                if not z3.is_int_value(z3.simplify(y)) and getattr(self, 'mod_lemma', True):
                    # symbolic divisor (nonlinear for the solver): canonical dividend + the instance of the
                    # separately proved lemma  y > 0 => (x % y == 0  <=>  (-x) % y == 0)   [lemma:mod_neg_zero]
                    xn = z3.simplify(x, sort_sums=True)
                    xneg = z3.simplify(-x, sort_sums=True)
                    self.fact(z3.Implies(y > 0, (xn % y == 0) == (xneg % y == 0)))
                    self.used_assumption('engine lemma mod_neg_zero (discharged as its own obligation)')
                    x = xn
                r = z3.If(y > 0, x % y, -((-x) % (-y)))
                return self.mk_num(r, a, b)
            f = z3.Function('fmod', x.sort(), y.sort(), x.sort())
            r = f(x, y)
            # assumed float % contract (DESIGN 3.4): divisor > 0 => 0 <= r <= divisor
            self.fact(z3.Implies(y > 0, z3.And(r >= 0, r <= y)))
            self.used_assumption('float % treated as uninterpreted with 0 <= a % b <= b for b > 0')
            return VNum(r)
        if isinstance(op, ast.FloorDiv):
            self.oblige_safe('ZeroDivisionError', y != 0, 'floordiv')
            if x.sort() == I:
                r = z3.If(y > 0, x / y, -((-x) / (-y)) - z3.If((-x) % (-y) == 0, 0, 0))
                if True:
                    # floor division: q = floor(x / y)
                    q = self.fresh('fdiv', I)
                    self.fact(z3.Implies(y > 0, z3.And(q * y <= x, x < (q + 1) * y)))
                    self.fact(z3.Implies(y < 0, z3.And(q * y >= x, x > (q + 1) * y)))
                    return self.mk_num(q, a, b)
        if isinstance(op, ast.Pow) and z3.is_int_value(z3.simplify(y)) and 0 <= z3.simplify(y).as_long() <= 4:
            r = z3.IntVal(1) if x.sort() == I else z3.RealVal(1)
            for _ in range(z3.simplify(y).as_long()):
                r = r * x
            return self.mk_num(r, a, b)
        raise Unsupported(f'binary op {type(op).__name__}')

    def e_BoolOp(self, e):
        is_and = isinstance(e.op, ast.And)
        first = self.eval(e.values[0])
        acc = self.truth(first)
        allbool = isinstance(first, VBool)
        vals = [first]
        for sub in e.values[1:]:
            guard = acc if is_and else z3.Not(acc)
            try:
                v = self.eval_pure(lambda sub=sub: self.eval(sub), guard=guard)
            except PathEnd:
                # the operand cannot be reached on this path (its guard is infeasible here, e.g. `x is not None and x.f`
                # with x None): the value so far decides - the *path* goes on, only the operand is skipped
                continue
            vals.append(v)
            allbool = allbool and isinstance(v, VBool)
            t = self.truth(v)
            acc = z3.And(acc, t) if is_and else z3.Or(acc, t)
        if allbool:
            return VBool(acc)
        # value-returning and/or:  a or b  ==  a if truthy(a) else b ;  a and b  ==  b if truthy(a) else a
        out = vals[-1]
        for v in reversed(vals[:-1]):
            t = self.truth(v)
            out = self.merge([(t, v), (z3.Not(t), out)] if not is_and else [(z3.Not(t), v), (t, out)])
        return out

    def e_IfExp(self, e):
        c = self.truth(self.eval(e.test))
        cs = z3.simplify(c)
        if z3.is_true(cs):
            return self.eval(e.body)
        if z3.is_false(cs):
            return self.eval(e.orelse)
        if not self.spec_mode and not self.qvars and any(
                isinstance(n, (ast.List, ast.Dict, ast.ListComp, ast.DictComp, ast.Set, ast.SetComp))
                for part in (e.body, e.orelse) for n in ast.walk(part)):
            # a branch that builds a container has a heap effect: fork instead of merging
            return self.eval(e.body) if self.branch(c) else self.eval(e.orelse)
        try:
            a = self.eval_pure(lambda: self.eval(e.body), guard=c)
        except PathEnd:
            return self.eval(e.orelse)           # the condition cannot hold on this path
        try:
            b = self.eval_pure(lambda: self.eval(e.orelse), guard=z3.Not(c))
        except PathEnd:
            return a
        return self.merge([(c, a), (z3.Not(c), b)])

    def e_Compare(self, e):
        left = self.eval(e.left)
        acc = None
        for op, right_e in zip(e.ops, e.comparators):
            if acc is None:
                right = self.eval(right_e)
            else:
                try:
                    right = self.eval_pure(lambda r=right_e: self.eval(r), guard=acc)
                except PathEnd:
                    break                        # the chain is already false on this path
            t = self.compare(op, left, right)
            acc = t if acc is None else z3.And(acc, t)
            left = right
        return VBool(acc)

    def compare(self, op, a, b):
        if isinstance(op, (ast.Eq, ast.NotEq)):
            t = self.values_equal(a, b)
            return t if isinstance(op, ast.Eq) else z3.Not(t)
        if isinstance(op, (ast.Is, ast.IsNot)):
            t = self.values_equal(a, b, identity=True)
            if not self.spec_mode and isinstance(a, (VInt, VNum, VStr)) and isinstance(b, (VInt, VNum, VStr)):
                # `is` on numbers / strings is object identity: implied by nothing but CPython's caches
                u = self.fresh('same_object', B)
                if isinstance(a, (VInt,)) and isinstance(b, (VInt,)):
                    small = z3.And(a.term >= -5, a.term <= 256)
                    t = z3.And(t, z3.Or(small, u))
                else:
                    t = z3.And(t, u)
                self.used_assumption('`is` between numbers / strings: equal values are the same object only for '
                                     "CPython's small-int cache (-5..256)")
            if not self.spec_mode and isinstance(a, VBool) and isinstance(b, VBool):
                # `flag is True` / `flag is False` with a flag that was handed in (a parameter or a stored field typed
                # bool): the caller may have passed any truthy / falsy object (1, numpy.True_), which is no singleton
                for x, y in ((a, b), (b, a)):
                    xs, ys = z3.simplify(x.term), z3.simplify(y.term)
                    if (z3.is_true(ys) or z3.is_false(ys)) and (
                            (z3.is_const(xs) and xs.decl().kind() == z3.Z3_OP_UNINTERPRETED) or z3.is_select(xs)):
                        t = z3.And(t, self.fresh('flag_is_singleton', B))
                        self.used_assumption('`x is True` / `x is False` on a flag that was handed in holds only for the '
                                             'bool singletons (a truthy 1 or numpy.True_ is neither)')
                        break
            return t if isinstance(op, ast.Is) else z3.Not(t)
        if isinstance(op, (ast.In, ast.NotIn)):
            t = self.contains(b, a)
            return t if isinstance(op, ast.In) else z3.Not(t)
        x, y = self.arith_pair(a, b)
        if isinstance(op, ast.Lt):
            return x < y
        if isinstance(op, ast.LtE):
            return x <= y
        if isinstance(op, ast.Gt):
            return x > y
        if isinstance(op, ast.GtE):
            return x >= y
        raise Unsupported('comparison')

    def contains(self, cont, item):
        if isinstance(cont, VView) and cont.kind == 'keys':
            cont = cont.ref
        if isinstance(cont, VRef) and isinstance(cont.typ, ty.TDict):
            return self.dict_has(cont, item)
        if isinstance(cont, VRef) and isinstance(cont.typ, ty.TList):
            b, w = self.list_index_witness(cont, item)
            return b
        if isinstance(cont, VRef) and isinstance(cont.typ, ty.TRef):
            fi = self.prog.find_method(cont.typ.cls, '__contains__')
            if fi is not None:
                return self.truth(self.call_function(fi, [cont, item], {}))
            return self.truth(self.external_call(f'{cont.typ.cls}.__contains__', cont, [item], {}))
        if isinstance(cont, VRef) and cont.typ == ty.ANY:
            return self.truth(self.external_call('any.__contains__', cont, [item], {}))
        if isinstance(cont, VFunc) and cont.kind == 'class':
            meta = self.prog.metaclass_of(cont.name)
            fi = self.prog.find_method(meta, '__contains__') if meta else None
            if fi is not None:
                return self.truth(self.call_function(fi, [self.class_ref(cont), item], {}))
        if isinstance(cont, VTuple):
            return z3.Or([self.values_equal(item, x) for x in cont.items] or [z3.BoolVal(False)])
        if isinstance(cont, VView) and cont.kind == 'globals' and isinstance(item, VStr):
            from .engine import _module_global_pred
            return _module_global_pred(self, cont.ref, item.term)
        if isinstance(cont, VRange) and isinstance(item, (VInt, VBool)):
            i = self.arith_term(item)
            lo, hi = (x if z3.is_expr(x) else self.arith_term(x) for x in (cont.lo, cont.hi))
            return z3.And(lo <= i, i < hi)
        raise Unsupported(f'`in` on {type(cont).__name__}')

    # ------------------------------------------------------------------ attribute / subscript loads
    def e_Attribute(self, e):
        obj = self.eval(e.value)
        return self.getattr(obj, e.attr)

    def e_Subscript(self, e):
        obj = self.eval(e.value)
        if isinstance(e.slice, ast.Slice):
            raise Unsupported('slice')
        idx = self.eval(e.slice)
        return self.getitem(obj, idx)

    def getitem(self, obj, idx):
        if isinstance(obj, VTuple):
            if isinstance(idx, VInt) and z3.is_int_value(z3.simplify(idx.term)):
                k = z3.simplify(idx.term).as_long()
                if -len(obj.items) <= k < len(obj.items):
                    return obj.items[k]
                raise PyRaise('IndexError', implicit=True)
            raise Unsupported('symbolic tuple index')
        if isinstance(obj, VRef) and isinstance(obj.typ, ty.TList):
            i = self.arith_term(idx)
            n = self.llen(obj)
            if not self.spec_mode:
                isimp = z3.simplify(i)
                if z3.is_int_value(isimp) and isimp.as_long() < 0:
                    # constant negative index: counted from the end
                    self.oblige_safe('IndexError', n + isimp >= 0, 'list-index')
                    return self.list_get_typed(obj, n + isimp)
                # symbolic negative indices are not used by the contracted code: require 0 <= i < len
                self.oblige_safe('IndexError', z3.And(i >= 0, i < n), 'list-index')
            return self.list_get_typed(obj, i)
        if isinstance(obj, VRef) and isinstance(obj.typ, ty.TDict):
            if not self.spec_mode:
                self.oblige_safe('KeyError', self.dict_has(obj, idx), 'dict-key')
            return self.dict_get(obj, idx)
        if isinstance(obj, VRef) and isinstance(obj.typ, ty.TRef):
            fi = self.prog.find_method(obj.typ.cls, '__getitem__')
            if fi is not None:
                return self.call_function(fi, [obj, idx], {})
            return self.external_call(f'{obj.typ.cls}.__getitem__', obj, [idx], {})
        if isinstance(obj, VFunc) and obj.kind == 'external':
            return self.external_call(f'{obj.name}.__getitem__', obj.self, [idx], {})
        if isinstance(obj, VRef) and obj.typ == ty.ANY:
            return self.external_call('any.__getitem__', obj, [idx], {})
        if isinstance(obj, VFunc) and obj.kind == 'class':
            meta = self.prog.metaclass_of(obj.name)
            fi = self.prog.find_method(meta, '__getitem__') if meta else None
            if fi is not None:
                return self.call_function(fi, [self.class_ref(obj), idx], {})
        if isinstance(obj, VGhost):
            raise Unsupported('ghost subscript')
        raise Unsupported(f'subscript on {type(obj).__name__}')

    def class_ref(self, c):
        """Class object as a heap object (negative reference = class id)."""
        term = c.clsterm if isinstance(c, VFunc) else c.term
        name = c.name
        meta = self.prog.metaclass_of(name) if name else '_MetaAgent'
        return VRef(term, ty.TRef(meta or 'type'), getattr(c, 'st', None))

    def getattr(self, obj, name):
        prog = self.prog
        if isinstance(obj, VOld):
            if name not in obj.env:
                raise Unsupported(f'old.{name}: no such parameter')
            return self.with_state(obj.env[name], obj.st)
        if isinstance(obj, VGhost):
            return self.ghost_get(name)
        if isinstance(obj, VModule):
            return self.module_attr(obj.name, name)
        if isinstance(obj, VCls) and not isinstance(obj, VFunc):
            obj = VFunc('class', name=obj.name, clsterm=obj.term)
        if isinstance(obj, VFunc) and obj.kind == 'class':
            return self.class_getattr(obj, name)
        if isinstance(obj, VFunc) and obj.kind == 'super':
            fi = prog.find_method(obj.cls, name, after=obj.cls)
            if fi is None:
                if name == '__init__':
                    return VFunc('builtin', name='object.__init__')
                raise Unsupported(f'super().{name}')
            return VFunc('method', fi=fi, self=obj.self)
        if isinstance(obj, VFunc) and obj.kind == 'external':
            return VFunc('external', name=f'{obj.name}.{name}', self=obj.self)
        if isinstance(obj, VRef) and isinstance(obj.typ, ty.TRef):
            return self.object_getattr(obj, name)
        if isinstance(obj, VRef) and isinstance(obj.typ, (ty.TList, ty.TDict)):
            return VFunc('contmethod', name=name, self=obj)
        if isinstance(obj, VRef) and obj.typ == ty.ANY:
            return VFunc('external', name=f'any.{name}', self=obj)
        if isinstance(obj, VNone):
            raise PyRaise('AttributeError', implicit=True)
        raise Unsupported(f'attribute {name} on {type(obj).__name__}')

    def object_getattr(self, obj, name):
        prog = self.prog
        cname = obj.typ.cls
        if obj.nullable and not self.spec_mode:
            self.oblige_safe('AttributeError', obj.term != 0, f'none.{name}')
        hook = self.attr_hooks.get((cname, name)) or self.attr_hooks.get((cname, '*'))
        if hook is not None:
            r = hook(self, obj, name)
            if r is not None:
                return r
        if cname in prog.classes:
            ft = self.field_type(cname, name)
            if ft is not None:
                return self.read_field(obj, name, ft)
            pr = prog.find_property(cname, name)
            if pr is not None:
                return self.call_function(pr['get'], [obj], {})
            fi = prog.find_method(cname, name)
            if fi is not None:
                return VFunc('method', fi=fi, self=obj)
            ga = prog.find_method(cname, '__getattr__')
            if ga is not None:
                return self.call_function(ga, [obj, VStr(self.ctx.strid(name), name)], {})
            # attribute without a sidecar type (e.g. a cache added by an edit): an opaque field
            self.reg.fields[(cname, name)] = 'any'
            self.reg.auto_fields.add(name)
            return self.read_field(obj, name, ty.ANY)
        ft = self.field_type(cname, name)
        if ft is not None:
            return self.read_field(obj, name, ft)
        return VFunc('external', name=f'{cname}.{name}', self=obj)

    def class_getattr(self, c, name):
        prog = self.prog
        cname = c.name
        if cname is None:
            # symbolic class object (type(x)): only metaclass-level attributes are resolved
            cname_meta = '_MetaAgent'
            pr = prog.find_property(cname_meta, name)
            if pr is not None:
                return self.call_function(pr['get'], [self.class_ref(c)], {})
            raise Unsupported(f'attribute {name} on symbolic class')
        meta = prog.metaclass_of(cname)
        if meta:
            pr = prog.find_property(meta, name)
            if pr is not None:
                return self.call_function(pr['get'], [self.class_ref(c)], {})
        for k in prog.mro(cname):
            ci = prog.classes[k]
            if name in ci.class_attrs:
                if 'IntEnum' in prog.classes[k].bases or 'IntEnum' in ci.bases:
                    return VInt(ast.literal_eval(ci.class_attrs[name]))
                return self.eval_in_module(ci.class_attrs[name], ci.module)
            if name in ci.methods:
                fi = ci.methods[name]
                return VFunc('function', fi=fi)
        if meta:
            ft = self.field_type(meta, name)
            if ft is not None:
                return self.read_field(self.class_ref(c), name, ft)
            fi = prog.find_method(meta, name)
            if fi is not None:
                return VFunc('method', fi=fi, self=self.class_ref(c))
        raise Unsupported(f'class attribute {cname}.{name}')

    def with_state(self, v, st):
        if isinstance(v, VOld):
            return VOld(v.env, st if v.st is None else v.st)
        if isinstance(v, VRef):
            return VRef(v.term, v.typ, st)
        if isinstance(v, VTuple):
            return VTuple([self.with_state(x, st) for x in v.items])
        if isinstance(v, VCls):
            r = VCls(v.term, v.name)
            r.st = st
            return r
        return v

    # ------------------------------------------------------------------ merging of pure sub-explorations
    def merge(self, pairs):
        pairs = [(c, v) for c, v in pairs]
        vals = [v for _, v in pairs]
        if len(vals) == 1:
            return vals[0]
        v0 = vals[0]
        if all(isinstance(v, VTuple) for v in vals):
            n = len(v0.items)
            if any(len(v.items) != n for v in vals):
                raise Unsupported('merge of tuples of different length')
            return VTuple([self.merge([(c, v.items[k]) for c, v in pairs]) for k in range(n)])
        if all(isinstance(v, VNone) for v in vals):
            return VNone()
        if all(isinstance(v, VFunc) for v in vals):
            if all(v.kind == v0.kind and getattr(v, 'fi', None) is getattr(v0, 'fi', None)
                   and getattr(v, 'name', None) == getattr(v0, 'name', None) for v in vals):
                return v0
            return VFunc('choice', options=pairs)

        def ite(terms):
            out = terms[-1]
            for (c, _), t in zip(reversed(pairs[:-1]), reversed(terms[:-1])):
                out = z3.If(c, t, out)
            return out
        if all(isinstance(v, VBool) for v in vals):
            return VBool(ite([v.term for v in vals]))
        if all(isinstance(v, (VInt, VBool)) for v in vals):
            return VInt(ite([self.arith_term(v) for v in vals]))
        if all(isinstance(v, (VInt, VBool, VNum)) for v in vals):
            ts = [self.arith_term(v) for v in vals]
            if any(t.sort() != I for t in ts):
                ts = [z3.ToReal(t) if t.sort() == I else t for t in ts]
            return VNum(ite(ts))
        if all(isinstance(v, VStr) for v in vals):
            return VStr(ite([v.term for v in vals]))
        if all(isinstance(v, (VCls,)) or (isinstance(v, VFunc) and v.kind == 'class') for v in vals):
            return VCls(ite([v.term if isinstance(v, VCls) else v.clsterm for v in vals]))
        if all(isinstance(v, (VRef, VNone)) for v in vals):
            refs = [v for v in vals if isinstance(v, VRef)]
            t = refs[0].typ
            for r in refs[1:]:
                if str(r.typ).replace('?', '') != str(t).replace('?', ''):
                    t = ty.ANY
            if any(isinstance(v, VNone) for v in vals) or any(r.nullable for r in refs):
                t = self.nullable_of(t)
            return VRef(ite([v.term for v in vals]), t, refs[0].st)
        if all(isinstance(v, (VRef, VNone, VInt, VBool, VStr, VTuple, VNum)) for v in vals):
            return VRef(ite([self.coerce(v, ty.ANY) for v in vals]), ty.ANY)
        raise Unsupported('merge of ' + ','.join(type(v).__name__ for v in vals))

    def non_null(self, t):
        if isinstance(t, ty.TRef) and t.nullable:
            return ty.TRef(t.cls, False)
        return t

    def nullable_of(self, t):
        if isinstance(t, ty.TRef):
            return ty.TRef(t.cls, True)
        if isinstance(t, ty.TList):
            return ty.TList(t.elem, True)
        if isinstance(t, ty.TDict):
            return ty.TDict(t.k, t.v, True)
        return t

    def eval_pure(self, thunk, guard=None, allow_raise=False, raw=False):
        """Evaluate thunk over all its paths and merge the results (no heap effect allowed)."""
        save_script, save_pos = self.script, self.pos
        n0 = len(self.pc)
        S0 = self.S
        if guard is not None:
            self.pc.append(guard)
        n1 = len(self.pc)
        base_pc = list(self.pc)
        sub = []
        results = []
        raises = []
        try:
            while True:
                self.script, self.pos = sub, 0
                self.pc = list(base_pc)
                self.S = S0.copy()
                out = None
                try:
                    v = thunk()
                    out = ('val', v)
                except PyRaise as ex:
                    out = ('raise', ex)
                except PathEnd:
                    out = None
                decs = [t for t in self.pc[n1:] if t.get_id() in self.dec_ids]
                cond = z3.And(decs) if decs else z3.BoolVal(True)
                if out is not None and any(self.S.h.get(k) is not S0.h.get(k) and k in S0.h for k in self.S.h) \
                        and out[0] == 'val' and self.heap_differs(S0, self.S):
                    raise Unsupported('side effect inside a pure sub-expression')
                if out is not None:
                    if out[0] == 'val':
                        results.append((cond, out[1]))
                    else:
                        raises.append((cond, out[1]))
                while sub and sub[-1][0] == sub[-1][1] - 1:
                    sub.pop()
                if not sub:
                    break
                sub[-1] = (sub[-1][0] + 1, sub[-1][1])
        finally:
            self.script, self.pos = save_script, save_pos
            self.pc = base_pc[:n0]
            self.S = S0
        for cond, ex in raises:
            g = z3.And(guard, cond) if guard is not None else cond
            if allow_raise:
                continue
            # a raising path inside a merged sub-expression must be infeasible
            self.pc.append(guard) if guard is not None else None
            self.oblige_safe(ex.cls, z3.Not(cond), 'subexpr')
            if guard is not None:
                self.pc.pop()
        if not results:
            if raises and allow_raise:
                raise raises[0][1]
            raise PathEnd()
        if allow_raise and raises:
            self._pure_raises = raises
        if raw:
            return results
        return self.merge(results)

    def heap_differs(self, a, b):
        for k, t in b.h.items():
            if k in a.h and a.h[k] is not t and not a.h[k].eq(t):
                if k == 'alloc':
                    continue
                return True
        return False
