"""pyvc - verification-condition generator for the Python subset used by ECAgent.

Reads the real source of /repo on every run (frontend), executes function bodies symbolically
against sidecar contracts (engine), discharges the named obligations with SMT solvers (solve).
See /verif/DESIGN.md.
"""
