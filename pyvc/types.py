"""Sidecar types: tiny structural type language used to pick SMT sorts and container stores."""


class T:
    kind = '?'

    def __eq__(self, o):
        return isinstance(o, T) and str(self) == str(o)

    def __hash__(self):
        return hash(str(self))

    def __repr__(self):
        return str(self)


class TPrim(T):
    def __init__(self, kind):
        self.kind = kind           # int bool num str cls any none func

    def __str__(self):
        return self.kind


class TRef(T):
    kind = 'ref'

    def __init__(self, cls, nullable=False):
        self.cls = cls
        self.nullable = nullable

    def __str__(self):
        return f"ref{'?' if self.nullable else ''}:{self.cls}"


class TList(T):
    kind = 'list'

    def __init__(self, elem, nullable=False):
        self.elem = elem
        self.nullable = nullable

    def __str__(self):
        return f'list[{self.elem}]'

    @property
    def key(self):
        return f'list[{self.elem}]'


class TDict(T):
    kind = 'dict'

    def __init__(self, k, v, nullable=False):
        self.k = k
        self.v = v
        self.nullable = nullable

    def __str__(self):
        return f'dict[{self.k},{self.v}]'

    @property
    def key(self):
        return f'dict[{self.k},{self.v}]'


class TTuple(T):
    kind = 'tuple'

    def __init__(self, items):
        self.items = list(items)

    def __str__(self):
        return 'tuple[' + ','.join(map(str, self.items)) + ']'


INT, BOOL, NUM, STR, CLS, ANY, NONE, FUNC = (TPrim(k) for k in
                                             ('int', 'bool', 'num', 'str', 'cls', 'any', 'none', 'func'))
_PRIMS = {'int': INT, 'bool': BOOL, 'num': NUM, 'str': STR, 'cls': CLS, 'any': ANY, 'none': NONE, 'func': FUNC}


def _split_top(s):
    out, depth, cur = [], 0, ''
    for ch in s:
        if ch == '[':
            depth += 1
        elif ch == ']':
            depth -= 1
        if ch == ',' and depth == 0:
            out.append(cur)
            cur = ''
        else:
            cur += ch
    if cur:
        out.append(cur)
    return [x.strip() for x in out]


_cache = {}


def parse(s):
    if isinstance(s, T):
        return s
    s = s.strip()
    if s in _cache:
        return _cache[s]
    r = _parse(s)
    _cache[s] = r
    return r


def _parse(s):
    if s in _PRIMS:
        return _PRIMS[s]
    if s.startswith('ref?:'):
        return TRef(s[5:], True)
    if s.startswith('ref:'):
        return TRef(s[4:], False)
    nullable = False
    if s.endswith('?'):
        nullable = True
        s = s[:-1]
    if s.startswith('list[') and s.endswith(']'):
        return TList(parse(s[5:-1]), nullable)
    if s.startswith('dict[') and s.endswith(']'):
        k, v = _split_top(s[5:-1])
        return TDict(parse(k), parse(v), nullable)
    if s.startswith('tuple[') and s.endswith(']'):
        return TTuple([parse(x) for x in _split_top(s[6:-1])])
    raise ValueError(f'bad type {s!r}')


def slots(t):
    """Flatten a type into the SMT slots that store it in a container: list of leaf types."""
    if isinstance(t, TTuple):
        out = []
        for it in t.items:
            out.extend(slots(it))
        return out
    return [t]
