"""CPython cross-check of the engine's reading of Python (run by ./check selftest).

The symbolic executor is part of the trusted base: a wrong encoding of `%`, `//`, `and/or`, truthiness, chained
comparisons, list / dict operations ... would make every proof built on it worthless.  This module executes small
scalar functions (pyvc/xcases/Xcases.py and the scalar functions of /repo itself) twice:

  * symbolically: every path gives (path condition, facts, result term | exception class);
  * natively: CPython on sampled concrete inputs (small values, boundaries, negatives, large values).

For every input: at least one path must be feasible under `params == input`, and on every feasible path the outcome
must be CPython's:  hyps /\ params == input /\ result != expected  must be unsat (normal exit) or the raised class
must be the same.  A function the engine does not support is reported as skipped - never as agreeing.
"""
import importlib.util
import itertools
import os
import random
import shutil
import sys
import tempfile

import z3

ROOT = os.path.dirname(os.path.dirname(os.path.abspath(__file__)))
REPO_SCALARS = [
    # key in the package, parameter types
    ('Environments.discrete_grid_pos_to_id', dict(x='int', y='int', width='int', z='int', height='int')),
]
SAMPLES_INT = [0, 1, -1, 2, -2, 3, 5, 7, -7, 10, 256, 257, -6, 2 ** 31, -(2 ** 31) - 1, 2 ** 63 - 1, 12345678901234567890]


class _Remote:
    """Evaluate a function of the scratch copy of the package under /venv/bin/python (one process per batch)."""
    def __init__(self, scratch, key):
        self.scratch, self.key = scratch, key
        self.cache = {}

    def prefetch(self, inputs):
        import json
        import subprocess
        mod, fn = self.key.split('.')
        code = ('import json,sys\nsys.path.insert(0,%r)\nimport ECAgent.%s as M\nout=[]\n'
                'for a in json.load(sys.stdin):\n'
                '    try:\n        out.append(["normal", M.%s(*a)])\n'
                '    except Exception as ex:\n        out.append(["raise", type(ex).__name__])\n'
                'print(json.dumps(out))' % (self.scratch, mod, fn))
        p = subprocess.run(['/venv/bin/python', '-c', code], input=json.dumps([list(i) for i in inputs]),
                           capture_output=True, text=True, timeout=120)
        if p.returncode != 0:
            raise RuntimeError(p.stderr[-300:])
        for i, r in zip(inputs, json.loads(p.stdout.strip().splitlines()[-1])):
            self.cache[tuple(i)] = r

    def __call__(self, *a):
        kind, v = self.cache[tuple(a)]
        if kind == 'raise':
            raise type(v, (Exception,), {})()
        return v


def _ptypes(fn_node):
    out = {}
    for a in fn_node.args.args:
        out[a.arg] = 'bool' if a.arg in ('p', 'q') else 'int'
    return out


def _inputs(ptypes, rng, n, small=False):
    names = list(ptypes)
    pools = [([False, True] if ptypes[k] == 'bool' else SAMPLES_INT[:9]) for k in names]
    if small:       # functions that build a container of that size natively
        full = list(itertools.product(*pools))
        rng.shuffle(full)
        return names, full[:n]
    full = list(itertools.product(*pools))
    rng.shuffle(full)
    out = full[:n]
    for _ in range(n // 3):
        out.append(tuple(rng.choice([False, True]) if ptypes[k] == 'bool' else rng.choice(SAMPLES_INT) for k in names))
    return names, out


def _value_terms(eng, v):
    """Flatten a symbolic value into comparable z3 terms + a python shape."""
    from .values import VInt, VBool, VNone, VTuple, VNum, VStr
    if isinstance(v, VTuple):
        parts = [_value_terms(eng, x) for x in v.items]
        return ('tuple', parts)
    if isinstance(v, VNone):
        return ('none', None)
    if isinstance(v, VBool):
        return ('bool', v.term)
    if isinstance(v, (VInt, VNum)):
        return ('int', v.term)
    if isinstance(v, VStr):
        return ('str', v)
    return ('other', v)


def _match(shape, expected):
    """-> z3 formula 'symbolic value equals the CPython value', or None when the kinds can never agree,
    or 'skip' when the value kind is outside the comparison (references, strings)."""
    kind, t = shape
    if kind == 'tuple':
        if not isinstance(expected, tuple) or len(expected) != len(t):
            return None
        parts = [_match(s, e) for s, e in zip(t, expected)]
        if any(p_ is None for p_ in parts):
            return None
        if any(isinstance(p_, str) for p_ in parts):
            return 'skip'
        return z3.And(parts) if parts else z3.BoolVal(True)
    if kind == 'none':
        return z3.BoolVal(expected is None)
    if kind == 'bool':
        if not isinstance(expected, bool):
            return None
        return t == z3.BoolVal(expected)
    if kind == 'int':
        if isinstance(expected, bool) or not isinstance(expected, int):
            return None
        return t == z3.IntVal(expected)
    return 'skip'


def run(verbose=False, seed=7, per_fn=40):
    sys.path.insert(0, ROOT)
    from .frontend import Program
    from .specs import REG, Contract
    import contracts.all     # noqa: F401
    from . import verify
    repo = os.environ.get('VERIF_REPO', '/repo')
    scratch = tempfile.mkdtemp(prefix='verif-xcheck-')
    res = dict(functions=0, inputs=0, agreed=0, skipped=[], mismatches=[])
    try:
        shutil.copytree(os.path.join(repo, 'ECAgent'), os.path.join(scratch, 'ECAgent'))
        shutil.copy(os.path.join(ROOT, 'pyvc', 'xcases', 'Xcases.py'), os.path.join(scratch, 'ECAgent', 'Xcases.py'))
        prog = Program(scratch, extra_modules=('Xcases',))
        spec = importlib.util.spec_from_file_location('verif_xcases', os.path.join(ROOT, 'pyvc', 'xcases', 'Xcases.py'))
        native = importlib.util.module_from_spec(spec)
        spec.loader.exec_module(native)
        targets = [(f'Xcases.{n}', _ptypes(fi.node), getattr(native, n)) for n, fi in prog.module_funcs['Xcases'].items()]
        for key, pt in REPO_SCALARS:
            # the package imports numpy / pandas: its scalar functions are evaluated by the native layer's interpreter
            targets.append((key, pt, _Remote(scratch, key)))
        rng = random.Random(seed)
        for key, ptypes, fn in targets:
            ckey = key
            saved = REG.contracts.get(ckey)
            REG.contracts[ckey] = Contract(ckey, params=ptypes, props=['X'], modifies=[], locals={'d': 'dict[int,int]'})
            try:
                rep = verify.verify_function(prog, REG, ckey, pruning=False)
            except Exception as ex:
                res['skipped'].append(f'{key}: {type(ex).__name__}: {ex}')
                continue
            finally:
                REG.contracts.pop(ckey, None)
                if saved is not None:
                    REG.contracts[ckey] = saved
            if rep.error:
                res['skipped'].append(f'{key}: {rep.error}')
                continue
            res['functions'] += 1
            names, inputs = _inputs(ptypes, rng, per_fn, small=key.endswith('_small'))
            if isinstance(fn, _Remote):
                try:
                    fn.prefetch(inputs)
                except Exception as ex:
                    res['skipped'].append(f'{key}: native evaluation failed ({type(ex).__name__}: {ex})')
                    res['functions'] -= 1
                    continue
            for inp in inputs:
                try:
                    expected = ('normal', fn(*inp))
                except Exception as ex:
                    expected = ('raise', type(ex).__name__)
                res['inputs'] += 1
                feasible = 0
                undecided = 0
                bad = None
                for kind, hyps, out, env in rep.outcomes:
                    s = z3.Solver()
                    s.set('timeout', 5000)
                    s.add(hyps)
                    for n_, v_ in zip(names, inp):
                        t = env[n_].term
                        s.add(t == (z3.BoolVal(v_) if isinstance(v_, bool) else z3.IntVal(v_)))
                    r = s.check()
                    if r == z3.unsat:
                        continue
                    if r != z3.sat:
                        undecided += 1     # undecided feasibility: cannot blame the engine
                        continue
                    feasible += 1
                    if kind != expected[0]:
                        bad = f'path exits {kind}:{out if kind == "raise" else ""} but CPython gives {expected}'
                        break
                    if kind == 'raise':
                        if out != expected[1]:
                            bad = f'path raises {out}, CPython raises {expected[1]}'
                            break
                        continue
                    f = _match(_value_terms(None, out), expected[1])
                    if f is None:
                        bad = f'result kind differs: engine {_value_terms(None, out)[0]}, CPython {expected[1]!r}'
                        break
                    if isinstance(f, str):
                        continue
                    s.add(z3.Not(f))
                    r2 = s.check()
                    if r2 == z3.sat:
                        bad = f'engine admits a result different from CPython\'s {expected[1]!r}'
                        break
                if bad is None and feasible == 0:
                    # the engine turns possible run-time errors (index, key, division by zero ...) into `safe:` proof
                    # obligations and continues under their negation: an input on which such an obligation fails is
                    # not silently dropped, it is reported by that obligation
                    for ob in rep.obs:
                        if '/safe:' not in ob.name:
                            continue
                        s = z3.Solver()
                        s.set('timeout', 5000)
                        s.add(ob.hyps)
                        for n_, v_ in zip(names, inp):
                            s.add(z3.Const(n_, z3.BoolSort() if isinstance(v_, bool) else z3.IntSort()) ==
                                  (z3.BoolVal(v_) if isinstance(v_, bool) else z3.IntVal(v_)))
                        s.add(z3.Not(ob.goal))
                        if s.check() == z3.sat:
                            feasible = -1
                            res['by_safe_obligation'] = res.get('by_safe_obligation', 0) + 1
                            break
                if bad is None and feasible == 0 and undecided:
                    # no path was shown feasible, but for some the solver gave up on the quantified laws: not a verdict
                    res['undecided_inputs'] = res.get('undecided_inputs', 0) + 1
                    continue
                if bad is None and feasible == 0:
                    bad = f'no feasible path for this input (CPython: {expected})'
                if bad:
                    res['mismatches'].append(f'{key}{tuple(inp)}: {bad}')
                    if verbose:
                        print('  MISMATCH', res['mismatches'][-1])
                else:
                    res['agreed'] += 1
    finally:
        shutil.rmtree(scratch, ignore_errors=True)
    return res


if __name__ == '__main__':
    r = run(verbose=True)
    print({k: (v if not isinstance(v, list) else len(v)) for k, v in r.items()})
    for s_ in r['skipped']:
        print('  skipped', s_)
    for s_ in r['mismatches'][:40]:
        print('  mismatch', s_)
    sys.exit(1 if r['mismatches'] else 0)
