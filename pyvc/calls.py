"""Calls: inline execution, modular contract calls, builtins, container methods, externals (mixin)."""
import ast
import z3
from . import types as ty
from .values import (I, B, V, VInt, VBool, VNum, VStr, VCls, VNone, VRef, VTuple, VFunc, VRange, VView,
                     VModule, VOld, VExc, VGhost, Unsupported)
from .heap import PyRaise, PathEnd


class Frame:
    def __init__(self, fi, module, locals_, closure=None, self_cls=None):
        self.fi = fi
        self.module = module
        self.locals = locals_
        self.closure = closure
        self.self_cls = self_cls      # defining class (for super())
        self.loop_ord = 0
        self.call_ord = 0


class _Return(Exception):
    def __init__(self, v):
        self.v = v


class CallMixin:
    def e_Call(self, e):
        f = self.eval(e.func)
        args = []
        star = None
        for a in e.args:
            if isinstance(a, ast.Starred):
                sv = self.eval(a.value)
                if isinstance(sv, VTuple):
                    args.extend(sv.items)
                elif isinstance(sv, VRef) and isinstance(sv.typ, ty.TList):
                    star = sv
                else:
                    raise Unsupported('*arg of this kind')
            else:
                args.append(self.eval(a))
        kwargs = {}
        for kw in e.keywords:
            if kw.arg is None:
                kv = self.eval(kw.value)
                kwargs['**'] = kv
            else:
                kwargs[kw.arg] = self.eval(kw.value)
        save = self._cur_call
        self._cur_call = e
        try:
            return self.call(f, args, kwargs, star=star, node=e)
        finally:
            self._cur_call = save

    def call(self, f, args, kwargs, star=None, node=None):
        if not isinstance(f, VFunc):
            if isinstance(f, VCls):
                f = VFunc('class', name=f.name, clsterm=f.term)
            elif isinstance(f, VRef) and isinstance(f.typ, ty.TRef):
                fi = self.prog.find_method(f.typ.cls, '__call__')
                if fi is not None:
                    return self.call_function(fi, [f] + args, kwargs)
                return self.external_call(f'{f.typ.cls}.__call__', f, args, kwargs)
            elif isinstance(f, VRef) and f.typ in (ty.ANY, ty.FUNC):
                return self.external_call('any.__call__', f, args, kwargs)
            else:
                raise Unsupported(f'call of {type(f).__name__}')
        k = f.kind
        if k == 'function':
            return self.call_function(f.fi, args, kwargs, star=star)
        if k == 'method':
            return self.call_function(f.fi, [f.self] + args, kwargs, star=star)
        if k == 'closure':
            return self.call_inline(f.fi_node, f.module, args, kwargs, closure=f.env, name=f.name)
        if k == 'class':
            return self.instantiate(f, args, kwargs)
        if k == 'excclass':
            return VExc(f.name, args)
        if k == 'builtin':
            return self.builtin(f.name, args, kwargs, node)
        if k == 'contmethod':
            return self.container_method(f.self, f.name, args, kwargs)
        if k == 'external':
            return self.external_call(f.name, f.self, args, kwargs, star=star)
        if k == 'specfn':
            return self.call_specfn(f, args, kwargs)
        if k == 'partial':
            return self.call(f.func, list(f.args) + args, {**f.kwargs, **kwargs}, star=star)
        if k == 'super':
            raise Unsupported('call of super object')
        raise Unsupported(f'call kind {k}')

    # ------------------------------------------------------------------ repository functions
    def call_function(self, fi, args, kwargs, star=None):
        c = self.specs.lookup(fi, self.view)
        if c is not None and c.use != 'inline' and not (self.depth == 0 and False):
            if not self.spec_mode or c.pure:
                return self.call_contract(fi, c, args, kwargs, star=star)
        if fi.kind == 'static' and args and False:
            pass
        return self.call_inline(fi.node, fi.module, args, kwargs, fi=fi, star=star)

    def bind_params(self, node, args, kwargs, module, star=None, types=None):
        a = node.args
        params = [p.arg for p in a.posonlyargs + a.args]
        defaults = [None] * (len(params) - len(a.defaults)) + list(a.defaults)
        loc = {}
        args = list(args)
        for p, d in zip(params, defaults):
            if args:
                loc[p] = args.pop(0)
            elif p in kwargs:
                loc[p] = kwargs.pop(p)
            elif d is not None:
                loc[p] = self.eval_in_module(d, module)
            else:
                raise Unsupported(f'missing argument {p} calling {node.name}')
        if a.vararg is not None:
            if star is not None:
                if args:
                    raise Unsupported('positional + *list into *args')
                loc[a.vararg.arg] = star
            else:
                loc[a.vararg.arg] = VTuple(args)
        elif args or star is not None:
            raise Unsupported(f'too many arguments calling {node.name}')
        for p, d in zip(a.kwonlyargs, a.kw_defaults):
            if p.arg in kwargs:
                loc[p.arg] = kwargs.pop(p.arg)
            elif d is not None:
                loc[p.arg] = self.eval_in_module(d, module)
            else:
                raise Unsupported(f'missing kw-only argument {p.arg}')
        if a.kwarg is not None:
            loc[a.kwarg.arg] = kwargs.pop('**', None) or VNone()
        kwargs.pop('**', None)
        if kwargs:
            raise Unsupported(f'unexpected keyword arguments {list(kwargs)} calling {node.name}')
        return loc

    def eval_in_module(self, expr, module):
        save = self.frame
        self.frame = Frame(None, module, {})
        try:
            return self.eval(expr)
        finally:
            self.frame = save

    def call_inline(self, node, module, args, kwargs, fi=None, closure=None, name=None, star=None):
        if self.depth > 12:
            raise Unsupported('inline depth (recursion?)')
        loc = self.bind_params(node, args, dict(kwargs), module, star=star)
        fr = Frame(fi, module, loc, closure=closure, self_cls=(fi.cls.name if fi is not None and fi.cls else None))
        save = self.frame
        self.frame = fr
        self.depth += 1
        try:
            self.exec_block(node.body)
            return VNone()
        except _Return as r:
            return r.v
        finally:
            self.frame = save
            self.depth -= 1

    def instantiate(self, f, args, kwargs):
        prog = self.prog
        name = f.name
        if name is None:
            raise Unsupported('instantiating a symbolic class')
        if name in prog.classes and prog.is_subclass(name, 'Exception') or 'Exception' in (prog.classes[name].bases if name in prog.classes else []):
            return VExc(name, args)
        if name not in prog.classes:
            return self.external_call(f'{name}.__new__', None, args, kwargs)
        if self.spec_mode:
            raise Unsupported('allocation in specification')
        obj = self.alloc(ty.TRef(name), cls=z3.IntVal(self.cls_id(name)))
        self.init_fields(obj, name)
        init = prog.find_method(name, '__init__')
        if init is not None:
            self.call_function(init, [obj] + args, kwargs)
        return obj

    def init_fields(self, obj, cname):
        pass

    # ------------------------------------------------------------------ builtins
    def builtin(self, name, args, kwargs, node=None):
        if name == 'len':
            v = args[0]
            if isinstance(v, VTuple):
                return VInt(len(v.items))
            if isinstance(v, VView):
                v = v.ref
            if isinstance(v, VRef) and isinstance(v.typ, ty.TList):
                return VInt(self.llen(v))
            if isinstance(v, VRef) and isinstance(v.typ, ty.TDict):
                return VInt(self.d_parts(v)[4])
            if isinstance(v, VRef) and isinstance(v.typ, ty.TRef):
                fi = self.prog.find_method(v.typ.cls, '__len__')
                if fi is not None:
                    return self.call_function(fi, [v], {})
                return self.external_call(f'{v.typ.cls}.__len__', v, [], {})
            if isinstance(v, VFunc) and v.kind == 'class':
                fi = self.prog.find_method(self.prog.metaclass_of(v.name), '__len__')
                return self.call_function(fi, [self.class_ref(v)], {})
            if isinstance(v, VRef) and v.typ == ty.ANY:
                return VInt(self.llen(VRef(v.term, ty.parse('list[any]'), v.st)))
            if isinstance(v, VRange):
                lo, hi = (x if z3.is_expr(x) else self.arith_term(x) for x in (v.lo, v.hi))
                return VInt(z3.If(hi > lo, hi - lo, 0))
            raise Unsupported(f'len of {type(v).__name__}')
        if name == 'range':
            if len(args) == 1:
                return VRange(z3.IntVal(0), self.arith_term(args[0]))
            if len(args) == 2:
                return VRange(self.arith_term(args[0]), self.arith_term(args[1]))
            raise Unsupported('range with step')
        if name in ('min', 'max'):
            if len(args) == 1:
                return self.external_call(name, None, args, kwargs)
            acc = args[0]
            for b in args[1:]:
                x, y = self.arith_pair(acc, b)
                # CPython: min(a, b) returns a unless b < a ; max(a, b) returns a unless b > a
                t = z3.If(y < x, y, x) if name == 'min' else z3.If(y > x, y, x)
                acc = self.mk_num(t, acc, b)
            return acc
        if name == 'abs':
            x = self.arith_term(args[0])
            return self.mk_num(z3.If(x >= 0, x, -x), args[0])
        if name == 'int':
            v = args[0]
            if isinstance(v, (VInt, VBool)):
                return VInt(self.arith_term(v))
            x = self.arith_term(v)
            if x.sort() == I:
                return VInt(x)
            return VInt(z3.If(x >= 0, z3.ToInt(x), -z3.ToInt(-x)))
        if name == 'float':
            x = self.arith_term(args[0])
            if x.sort() == I and not isinstance(args[0], VBool) and not z3.is_int_value(z3.simplify(x)):
                # int -> float is exact only up to 2**53; beyond that the nearest double (relative error 2**-53).
                # (floats are reals otherwise - stated assumption - but this conversion is where precision is lost)
                self.used_assumption('float(int) is exact for |n| <= 2**53 and within relative error 2**-53 beyond')
                fl = self.fresh('float_of', self.ctx.num)
                xr = self.num_term(args[0])
                big = 2 ** 53
                self.fact(z3.Implies(z3.And(x >= -big, x <= big), fl == xr))
                self.fact(z3.And(fl * big <= xr * big + z3.If(xr >= 0, xr, -xr), fl * big >= xr * big - z3.If(xr >= 0, xr, -xr)))
                return VNum(fl)
            return VNum(self.num_term(args[0]))
        if name == 'bool':
            return VBool(self.truth(args[0]))
        if name == 'type':
            return self.type_of_value(args[0])
        if name == 'isinstance':
            return VBool(self.isinstance_term(args[0], args[1]))
        if name == 'super' and len(args) == 2:
            c0 = args[0]
            return VFunc('super', cls=c0.name, self=args[1])
        if name == 'super':
            fr = self.frame
            while fr is not None and fr.self_cls is None:
                fr = fr.closure
            if fr is None:
                raise Unsupported('super() outside a method')
            first = fr.fi.params()[0]
            return VFunc('super', cls=fr.self_cls, self=fr.locals[first])
        if name == 'object.__init__':
            return VNone()
        if name == 'list':
            if not args:
                raise Unsupported('list() without a sidecar type')
            v = args[0]
            if isinstance(v, VRef) and isinstance(v.typ, ty.TList):
                return self.list_copy(v)
            if isinstance(v, VView) and v.kind == 'values' and node is not None and len(node.args) == 1 \
                    and isinstance(node.args[0], ast.Call) and isinstance(node.args[0].func, ast.Attribute) \
                    and isinstance(node.args[0].func.value, (ast.Name, ast.Attribute)):
                # list(d.values()) is read as [d[k] for k in d] (d a name / attribute chain: evaluated twice, no effect)
                d = node.args[0].func.value
                comp = ast.ListComp(
                    elt=ast.Subscript(value=d, slice=ast.Name(id='k__values', ctx=ast.Load()), ctx=ast.Load()),
                    generators=[ast.comprehension(target=ast.Name(id='k__values', ctx=ast.Store()), iter=d, ifs=[],
                                                  is_async=0)])
                ast.copy_location(comp, node)
                ast.fix_missing_locations(comp)
                return self.eval(comp)
            if isinstance(v, (VView,)) or (isinstance(v, VRef) and isinstance(v.typ, ty.TDict)):
                return self.list_of_keys(v)
            raise Unsupported('list(x)')
        if name == 'tuple' and len(args) == 1 and isinstance(args[0], VRef) and isinstance(args[0].typ, ty.TList) \
                and 'tuple' not in self.builtin_hooks:
            # a tuple of symbolic length: an element-wise copy nobody can mutate (read as a fresh list object)
            return self.list_copy(args[0])
        if name == 'enumerate':
            return VView('enumerate', args[0])
        if name == 'globals' and not args:
            # only membership tests are read: `x in globals()` = "x is bound at module level here"
            return VView('globals', self.frame.fi.module if self.frame is not None and self.frame.fi is not None else '?')
        if name == 'str':
            return VStr(self.fresh('str'), None)
        if name in ('hasattr', 'getattr', 'dict', 'tuple', 'sum', 'sorted', 'open', 'set', 'frozenset', 'id',
                    'hash', 'iter', 'next', 'zip', 'print', 'callable', 'all', 'any'):
            h = self.builtin_hooks.get(name)
            if h is not None:
                return h(self, args, kwargs, node)
            if name in ('all', 'any') and self.spec_mode:
                raise Unsupported(f'{name}() needs a generator argument')
            return self.external_call(name, None, args, kwargs)
        raise Unsupported(f'builtin {name}')

    def type_of_value(self, v):
        if isinstance(v, (VInt,)):
            return VCls(z3.IntVal(self.cls_id('int')), 'int')
        if isinstance(v, VBool):
            return VCls(z3.IntVal(self.cls_id('bool')), 'bool')
        if isinstance(v, VStr):
            return VCls(z3.IntVal(self.cls_id('str')), 'str')
        if isinstance(v, VTuple):
            return VCls(z3.IntVal(self.cls_id('tuple')), 'tuple')
        if isinstance(v, VNone):
            return VCls(z3.IntVal(self.cls_id('NoneType')), 'NoneType')
        if isinstance(v, VNum):
            if v.term.sort() == I:
                return VCls(z3.IntVal(self.cls_id('int')), 'int')
            return VCls(z3.IntVal(self.cls_id('float')), 'float')
        if isinstance(v, VRef) and isinstance(v.typ, ty.TList):
            return VCls(z3.IntVal(self.cls_id('list')), 'list')
        if isinstance(v, VRef) and isinstance(v.typ, ty.TDict):
            return VCls(z3.IntVal(self.cls_id('dict')), 'dict')
        if isinstance(v, VRef) and isinstance(v.typ, ty.TRef) and v.typ.cls in self.prog.classes \
                and not v.nullable and not any(c != v.typ.cls and self.prog.is_subclass(c, v.typ.cls)
                                               for c in self.prog.classes) and v.typ.cls in self.final_classes:
            return VCls(z3.IntVal(self.cls_id(v.typ.cls)), v.typ.cls)
        if isinstance(v, VRef):
            t = self.class_of(v)
            r = VCls(t, None)
            r.st = v.st
            self.fact(z3.Implies(v.term != 0, t < 0))
            return r
        if (isinstance(v, VFunc) and v.kind == 'class') or isinstance(v, VCls):
            return VCls(z3.IntVal(self.cls_id('type')), 'type')
        raise Unsupported(f'type() of {type(v).__name__}')

    def isinstance_term(self, v, c):
        if isinstance(c, VTuple):
            return z3.Or([self.isinstance_term(v, x) for x in c.items])
        if isinstance(c, VFunc) and c.kind == 'external':
            return self.truth(self.external_call('isinstance', None, [v, c], {}))
        cname = c.name if isinstance(c, (VFunc, VCls)) else None
        if isinstance(c, VFunc) and c.kind == 'builtin':
            cname = c.name
        if cname is None:
            raise Unsupported('isinstance with symbolic class')
        if isinstance(v, VRef) and isinstance(v.typ, ty.TRef) and v.typ.cls in self.prog.classes:
            # heap typing: the dynamic class is a subclass of the declared one
            if cname in self.prog.classes and self.prog.is_subclass(v.typ.cls, cname):
                return v.term != 0 if v.nullable else z3.BoolVal(True)
            if cname not in self.prog.classes and cname != 'object':
                return z3.BoolVal(False)
        if isinstance(v, VRef) and (isinstance(v.typ, ty.TRef) or v.typ == ty.ANY):
            return z3.And(v.term != 0, self.subclass_term(self.class_of(v), cname))
        tv = self.type_of_value(v)
        if tv.name is not None:
            if tv.name == cname or (tv.name == 'bool' and cname == 'int'):
                return z3.BoolVal(True)
            return z3.BoolVal(False)
        return self.subclass_term(tv.term, cname)

    def list_of_keys(self, v):
        ref = v.ref if isinstance(v, VView) else v
        if isinstance(v, VView) and v.kind != 'keys':
            raise Unsupported('list(view)')
        n, key_at, pos_of = self.dict_enum(ref)
        new = self.alloc(ty.TList(ref.typ.k))
        arr = self.fresh('keys', z3.ArraySort(I, I))
        j = z3.Int('j')
        self.fact(z3.ForAll([j], z3.Implies(z3.And(0 <= j, j < n), z3.Select(arr, j) == key_at(j))))
        self.list_set_all(new, n, [arr])
        return new

    def list_repeat(self, lst, k):
        """lst * k  (k >= 0): element i*len + j = lst[j]."""
        n = self.llen(lst)
        kk = self.arith_term(k)
        new = self.alloc(ty.TList(lst.typ.elem))
        m = self.fresh('replen', I)
        self.fact(z3.If(kk > 0, m == n * kk, m == 0))
        arrs = []
        r, j = z3.Int('r'), z3.Int('j')
        for a in self.lel_arrays(lst):
            na = self.fresh('rep', a.sort())
            self.fact(z3.ForAll([r, j], z3.Implies(z3.And(0 <= r, r < kk, 0 <= j, j < n),
                                                   z3.Select(na, r * n + j) == z3.Select(a, j))))
            arrs.append(na)
        self.list_set_all(new, m, arrs)
        return new

    # ------------------------------------------------------------------ container methods
    def container_method(self, obj, name, args, kwargs):
        if isinstance(obj.typ, ty.TList):
            if name == 'append':
                cap = self._acc_capture
                if cap is not None:
                    accv = self.lookup(cap[0])
                    if isinstance(accv, VRef) and accv.term.eq(obj.term):
                        cap[1].append(args[0])
                        return VNone()
                self.list_append(obj, args[0])
                return VNone()
            if name == 'insert':
                idx = self.arith_term(args[0])
                n = self.llen(obj)
                self.oblige_safe('insert-range', z3.And(idx >= 0, idx <= n), 'list.insert index within 0..len')
                self.list_insert(obj, idx, args[1])
                return VNone()
            if name == 'remove':
                b, w = self.list_index_witness(obj, args[0])
                self.oblige_safe('ValueError', b, 'list.remove')
                self.assume(b)
                self.list_remove_at(obj, w)
                return VNone()
            if name == 'clear':
                self.list_set_all(obj, z3.IntVal(0), self.lel_arrays(obj))
                return VNone()
            if name == 'copy':
                return self.list_copy(obj)
            if name == 'index' and len(args) == 1:
                b, w = self.list_index_witness(obj, args[0])
                self.oblige_safe('ValueError', b, 'list.index')
                return VInt(w)
            if name == 'pop' and not args:
                n = self.llen(obj)
                self.oblige_safe('IndexError', n > 0, 'list.pop')
                v = self.list_get_typed(obj, n - 1)
                self.list_remove_at(obj, n - 1)
                return v
            raise Unsupported(f'list.{name}')
        if isinstance(obj.typ, ty.TDict):
            if name == 'keys':
                return VView('keys', obj)
            if name == 'items':
                return VView('items', obj)
            if name == 'values':
                return VView('values', obj)
            if name == 'get':
                has = self.dict_has(obj, args[0])
                v = self.dict_get(obj, args[0])
                d = args[1] if len(args) > 1 else VNone()
                return self.merge([(has, v), (z3.Not(has), d)])
            if name == 'pop' and len(args) in (1, 2) and not kwargs:
                has = self.dict_has(obj, args[0])
                if len(args) == 1:
                    self.oblige_safe('KeyError', has, 'dict.pop')
                    v = self.dict_get(obj, args[0])
                    self.dict_del(obj, args[0])
                    return v
                if self.branch(has):
                    v = self.dict_get(obj, args[0])
                    self.dict_del(obj, args[0])
                    return v
                return args[1]
            if name == 'setdefault' and len(args) == 2 and not kwargs:
                if self.branch(self.dict_has(obj, args[0])):
                    return self.dict_get(obj, args[0])
                self.dict_set(obj, args[0], args[1])
                return self.dict_get(obj, args[0])
            h = self.builtin_hooks.get('dict.' + name)
            if h is not None:
                return h(self, [obj] + args, kwargs, None)
            raise Unsupported(f'dict.{name}')
        raise Unsupported('container method')
