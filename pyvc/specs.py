"""Contract registry (sidecar API) + the native (concrete) reading of the spec helper functions.

Contract predicates are ordinary Python `def`s.  Two readings of the same text:
  * symbolic - pyvc.engine parses their AST and evaluates it over the symbolic heap;
  * concrete - they are simply called on real objects (replay, run-time monitoring).
This module must import under both interpreters (python3-vt and /venv/bin/python): no z3, no ECAgent here.
"""
import ast
import inspect
import textwrap


class Contract:
    def __init__(self, key, **kw):
        self.key = key                                  # 'Core.SystemManager.add_system'
        self.params = kw.pop('params', {})              # name -> type string ; '*args' for varargs
        self.returns = kw.pop('returns', None)          # type string of the result (None: no value)
        self.requires = kw.pop('requires', [])          # [pred]
        self.ensures = kw.pop('ensures', {})            # property tag -> [pred]
        self.raises = kw.pop('raises', {})              # exc -> dict(when=pred|None, ensures={tag:[pred]}, modifies=[..])
        self.modifies = kw.pop('modifies', [])          # location expressions (strings), evaluated in the pre-state
        self.loops = kw.pop('loops', {})                # ordinal -> dict(invariant=[pred], modifies=[...], index='i')
        self.locals = kw.pop('locals', {})              # local variable name -> type (for {} / [] displays)
        self.use = kw.pop('use', 'contract')            # contract | inline   (how callers see this function)
        self.kind = kw.pop('kind', 'checked')           # checked | abstract (assumed: user code) | external (assumed)
        self.modes = kw.pop('modes', ['int'])           # numeric modes to verify under: int / real
        self.cases = kw.pop('cases', None)              # [dict(name=..., params={name: type or 'none'})]
        self.props = kw.pop('props', [])                # properties whose safety / frame obligations this carries
        self.pure = kw.pop('pure', False)
        self.ghost_pre = kw.pop('ghost_pre', None)
        self.effects = kw.pop('effects', None)          # callable(engine, env, old) -> None : ghost updates on normal exit
        self.monitor = kw.pop('monitor', {})            # for abstract callees: tag -> [pred] asserted at call sites
        self.implicit = kw.pop('implicit', [])          # implicit exception classes that are documented outcomes
        self.notes = kw.pop('notes', '')
        self.assumes = kw.pop('assumes', [])            # textual assumptions used by this contract
        self.inv = kw.pop('inv', [])
        self.xinv = kw.pop('xinv', True)
        self.skeleton = kw.pop('skeleton', None)          # pinned call skeleton for ordinal-keyed site contracts
        self.frame_props = kw.pop('frame_props', None)
        self.variant = kw.pop('variant', None)
        self.roles = kw.pop('roles', {})                 # sidecar local name -> role ('emptylist#0', 'emptydict#0')
        self.assume_callee_pre = kw.pop('assume_callee_pre', [])   # callees whose preconditions are assumed here
        self.sites = kw.pop('sites', None)               # call ordinal -> dict(assert=[pred], effect=name, props=[..])
        self.expect_refuted = kw.pop('expect_refuted', False)   # case split pinned as an open finding
        self.effects_check = kw.pop('effects_check', [])   # engine routines producing obligations about external calls
        self.native = kw.pop('native', True)            # usable by the run-time monitor
        self.pruning = kw.pop('pruning', True)
        self.ghost_init = kw.pop('ghost_init', None)     # name of an engine routine initialising per-call ghosts
        self.view = kw.pop('view', None)                 # variant used to look up callees' contracts
        if kw:
            raise TypeError(f'unknown contract fields {list(kw)}')


class Registry:
    def __init__(self):
        self.contracts = {}
        self.fields = {}            # (class, field) -> type string
        self.lemmas = []            # dict(name, props, fn)
        self.ghosts = {}            # ghost name -> type string
        self.user_classes = {}      # synthetic user classes: name -> base
        self.spec_modules = []
        self.scans = {}
        self.auto_fields = set()    # attributes met in the code without a sidecar type (opaque, outside every frame)
        self.namespaces = {}        # class -> {attribute name: type} for instance-__dict__ modelled classes
        self.frame_tags = {}        # field name / container type -> properties that own its frame obligations

    def contract(self, key, **kw):
        full = key + ('#' + kw['variant'] if kw.get('variant') else '')
        if full in self.contracts:
            raise KeyError(f'duplicate contract {full}')
        c = Contract(key, **kw)
        c.full = full
        self.contracts[full] = c
        return c

    def fields_of(self, cls, **fields):
        for k, v in fields.items():
            self.fields[(cls, k)] = v

    def lemma(self, name, props, fn, **kw):
        self.lemmas.append(dict(name=name, props=props, fn=fn, **kw))

    def lookup(self, fi, view=None):
        k = fi.key
        if fi.kind == 'property_get':
            k += '@get'
        elif fi.kind == 'property_set':
            k += '@set'
        if view is not None and (k + '#' + view) in self.contracts:
            return self.contracts[k + '#' + view]
        return self.contracts.get(k)


REG = Registry()
contract = REG.contract
fields_of = REG.fields_of
lemma = REG.lemma

_src_cache = {}


def pred_ast(fn):
    """FunctionDef AST of a predicate (cached)."""
    if fn not in _src_cache:
        src = textwrap.dedent(inspect.getsource(fn))
        node = ast.parse(src).body[0]
        if not isinstance(node, ast.FunctionDef):
            raise TypeError(f'predicate {fn} must be a def')
        _src_cache[fn] = node
    return _src_cache[fn]


# ------------------------------------------------------------------------------------------------
# Native reading of the spec helpers (the symbolic reading lives in pyvc/engine.py: SPEC_HELPERS)
# ------------------------------------------------------------------------------------------------

def implies(a, b):
    return (not a) or bool(b)


def iff(a, b):
    return bool(a) == bool(b)


def index_of(L, x):
    """First index of x in L (identity for objects), len(L) when absent."""
    for i, y in enumerate(L):
        if y is x or (type(y) in (int, str, tuple, float, bool) and y == x):
            return i
    return len(L)


def order_of(d, k):
    """Insertion rank of key k in dict d (only compared, never used as a number)."""
    return list(d).index(k)


def pos_in(d, k):
    """Position of key k in the iteration order of dict d."""
    return list(d).index(k)


def key_at(d, i):
    return list(d)[i]


def is_fresh(x, old):
    """x was allocated during the call."""
    return id(x) not in old.ids__


def same_elems(a, b):
    return len(a) == len(b) and all(x is y or x == y for x, y in zip(a, b))


def same_dict(a, b):
    return list(a.keys()) == list(b.keys()) and all(a[k] is b[k] or a[k] == b[k] for k in a)


def typeof(x):
    return type(x)


def now(x):
    """The object denoted by x, read in the current state (x may have been reached through `old`)."""
    return getattr(x, 'orig__', x)


def was(old, x):
    """The object x as it was before the call (attribute snapshot)."""
    return getattr(old, 'snaps__', {}).get(id(getattr(x, 'orig__', x)), x)


def origin(lst, i):
    """Proof device (symbolic reading only): source loop-variable values of element i of an accumulated list."""
    raise NotImplementedError('origin() has no concrete reading; contracts using it are native=False')


def by_lemma(fn, *args):
    """Use an instance of a separately proved lemma (concrete reading: just evaluate it)."""
    return bool(fn(*args))


def as_list(x):
    return list(x)


def is_ndarray(x):
    return type(x).__name__ == 'ndarray'


def is_list(x):
    return isinstance(x, list)


def is_str_value(x):
    return type(x) == str


def iterable(x):
    try:
        iter(x)
        return True
    except TypeError:
        return False


def items_of(x):
    return list(x)


def rec_has(d, k):
    return k in d


def rec_get(d, k):
    return d[k]


def agg_min(xs):
    return min(xs)


def agg_max(xs):
    return max(xs)


def agg_mean(xs):
    import statistics
    return statistics.mean(xs)


def agg_sum(xs):
    return sum(xs)


def agg_variance(xs):
    import statistics
    return statistics.variance(xs)


def as_dict(x):
    return x


FILE_LOGS = {}        # native reading: filename -> list of records written (filled by the replay harness)


def file_log(name):
    return FILE_LOGS.setdefault(name, [])


def json_content(file_name):
    raise NotImplementedError('json_content has no concrete reading (native=False contracts only)')


def is_module_global(name):
    raise NotImplementedError('is_module_global has no concrete reading (native=False contracts only)')


class _SeedProbe:
    """Concrete reading of rng_seed: the generator's state, comparable (via same) with a seed value - true when a
    generator freshly made from that seed is in the same state (evaluated at the exit of the constructor)."""
    def __init__(self, r):
        self.state = r.getstate()

    def seeded_from(self, seed):
        import random as _random
        return _random.Random(seed).getstate() == self.state


def rng_seed(r):
    return _SeedProbe(r)


def desc_writes_ok():
    return True


def same_obj(x, y):
    """x and y are the same container object, where y may be a snapshot copy carrying its origin's identity."""
    return getattr(x, 'orig_id__', id(x)) == getattr(y, 'orig_id__', id(y))


def same(a, b):
    """Identity for objects, equality for immutable scalars."""
    if a is b or (type(a) in (int, str, float, bool, tuple) and type(a) is type(b) and a == b):
        return True
    if isinstance(a, _SeedProbe):
        return b is None or a.seeded_from(b)       # no seed given: seeded from the system, nothing to compare
    if isinstance(b, _SeedProbe):
        return a is None or b.seeded_from(a)
    ia, ib = getattr(a, 'orig_id__', None), getattr(b, 'orig_id__', None)
    return (ia is not None or ib is not None) and (ia if ia is not None else id(a)) == (ib if ib is not None else id(b))


def is_none(x):
    return x is None


class _Ghost:
    """Native ghost state: filled by the replay harness (instrumented user code), read by predicates."""

    def __init__(self):
        self.reset()

    def reset(self):
        from collections import defaultdict
        self.runs = defaultdict(int)
        self.last = None
        self.log = []


GHOST = _Ghost()


def ghost():
    return GHOST


class Old:
    """Snapshot namespace handed to predicates as `old` in the concrete reading."""

    def __init__(*a, **kw):
        a[0].__dict__.update(kw)
        a[0].ids__ = set()


NATIVE_HELPERS = dict(pos_in=pos_in, implies=implies, iff=iff, index_of=index_of, order_of=order_of, key_at=key_at,
                      is_fresh=is_fresh, same_elems=same_elems, same_dict=same_dict, typeof=typeof, same=same, same_obj=same_obj, now=now, was=was, origin=origin, by_lemma=by_lemma, as_list=as_list, is_ndarray=is_ndarray, is_list=is_list, is_str_value=is_str_value, iterable=iterable, items_of=items_of, rec_has=rec_has,
                      rec_get=rec_get, as_dict=as_dict, file_log=file_log, desc_writes_ok=desc_writes_ok, rng_seed=rng_seed, agg_min=agg_min, agg_max=agg_max, agg_mean=agg_mean, agg_sum=agg_sum,
                      agg_variance=agg_variance,
                      is_none=is_none)
