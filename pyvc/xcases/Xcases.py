"""Scalar Python fragments for the CPython cross-check of the engine (./check selftest; pyvc/xcheck.py).
Each function is executed symbolically by pyvc and natively by CPython on sampled inputs; the path whose
condition holds for an input must produce CPython's value / exception.  Parameters are ints (a..d) or bools (p, q)."""


def xc_mod(a, b):
    return a % b


def xc_floordiv(a, b):
    return a // b


def xc_divmod_identity(a, b):
    return (a // b) * b + a % b


def xc_neg_mod(a, b):
    return (-a) % b


def xc_mod_of_diff(a, b, c):
    return (a - b) % c == 0


def xc_chain(a, b, c):
    return a <= b <= c


def xc_chain3(a, b, c):
    return a < b == c


def xc_and(a, b):
    return a and b


def xc_or(a, b):
    return a or b


def xc_and_or(a, b, c):
    return a and b or c


def xc_not(a):
    return not a


def xc_tern(a, b):
    return a if a > b else b


def xc_minmax(a, b, c):
    return max(a, min(b, c))


def xc_max1(a, b):
    return max(a, 1) * max(b, 1)


def xc_abs(a, b):
    return abs(a - b)


def xc_aug(a, b):
    x = a
    x += b
    x -= 1
    x *= 2
    return x


def xc_nested(a, b):
    if a > 0:
        if b > 0:
            return 1
        else:
            return 2
    elif a == 0:
        return 3
    return 4


def xc_bool_arith(a, b):
    return (a > b) + (a == b)


def xc_truth_int(a):
    if a:
        return 1
    return 0


def xc_truth_bool(p, q):
    if p and not q:
        return 1
    return 0


def xc_bool_eq_int(p, a):
    return p == a


def xc_range_len_small(a, b):
    return len(range(a, b))


def xc_range_in_small(a, b):
    return a in range(b)


def xc_pow2(a):
    return a ** 2


def xc_none(a):
    x = None if a > 0 else a
    return x is None


def xc_none_or(a):
    x = None if a > 0 else a
    return x or 7


def xc_tuple(a, b):
    t = (a, b)
    return t[1], t[0]


def xc_tuple_cmp(a, b, c):
    return (a, b) == (b, c)


def xc_list(a, b):
    xs = [a, b]
    xs.append(a + b)
    return xs[2] - xs[0], len(xs)


def xc_list_index(a, b):
    xs = [a, b, a]
    return xs[b]


def xc_list_neg_index(a, b):
    xs = [a, b]
    return xs[-1]


def xc_list_in(a, b, c):
    return c in [a, b]


def xc_dict(a, b):
    d = {}
    d[a] = 1
    d[b] = 2
    return len(d), d[a]


def xc_dict_missing(a, b):
    d = {a: 1}
    return d[b]


def xc_dict_del(a, b):
    d = {a: 1, b: 2}
    del d[a]
    return b in d, len(d)


def xc_try(a, b):
    try:
        return a // b
    except ZeroDivisionError:
        return -1


def xc_raise(a):
    if a < 0:
        raise ValueError('negative')
    return a


def xc_while_free(a, b):
    # the shape of the wrap / clamp arithmetic of SpaceWorld.move
    w = max(b, 1)
    x = (a + 3) % w
    y = max(min(a + 3, w - 1), 0)
    return x, y


def xc_horner(a, b, c, d):
    # the shape of discrete_grid_pos_to_id
    return (c * max(d, 1) + b) * max(d, 1) + a


def xc_cmp_mixed(a, p):
    return a > p


def xc_isinstance(a):
    return isinstance(a, int), isinstance(a, bool), type(a) == int


def xc_isinstance_bool(p):
    return isinstance(p, int), isinstance(p, bool), type(p) == int


def xc_len_truth(a):
    xs = [] if a > 0 else [a]
    if xs:
        return 1
    return 0


def xc_comp_small(a, b):
    return [i for i in range(a) if i < b] == [i for i in range(min(a, b))] if a >= 0 and b >= 0 else None


def xc_comp_len_small(a):
    return len([i for i in range(a)])


def xc_acc_continue_small(a, b, p):
    out = []
    for i in range(a):
        if i == b:
            if not p:
                continue
        out.append(i)
    return len(out)


def xc_early_return(a, b):
    for_x = a
    if for_x == b:
        return 'same' == 'same'
    return for_x != b and b != a


def xc_dict_pop(a, b):
    d = {}
    d[a] = 1
    d[b] = 2
    v = d.pop(a)
    return v, len(d), a in d, d.pop(a, -1)


def xc_dict_setdefault(a, b):
    d = {}
    x = d.setdefault(a, 5)
    y = d.setdefault(b, 6)
    return x, y, len(d)


def xc_list_index_pop(a, b):
    xs = [a, b, a]
    i = xs.index(b)
    last = xs.pop()
    return i, last, len(xs)


def xc_float_small(a):
    return float(a) == a if -1000 <= a <= 1000 else None
