"""Engine hooks: assumed contracts of libraries / builtins and special attribute models.

Everything registered here is an *assumption* (trusted), reported through eng.used_assumption().
"""
import z3
from . import types as ty
from .values import (I, B, VInt, VBool, VNum, VStr, VCls, VNone, VRef, VTuple, VFunc, VView, VRecord, Unsupported)
from .heap import PyRaise


NS_DICT = ty.parse('dict[str,any]')


def _ns_types(eng, cname):
    return eng.reg.namespaces.get(cname, {})


def ns_cast(eng, raw, t):
    t = ty.parse(t)
    if t == ty.INT:
        f = z3.Function('unbox_num', I, eng.ctx.num) if eng.ctx.num == I else z3.Function('unbox_int', I, I)
        return VInt(f(raw.term))
    if isinstance(t, (ty.TList, ty.TDict, ty.TRef)):
        return VRef(raw.term, t, raw.st)
    return raw


def ns_getattr(eng, obj, name):
    """Instance-namespace model (C19): attribute read = instance __dict__ first, then the class (methods)."""
    cname = obj.typ.cls
    D = eng.read_field(obj, '__dict__', NS_DICT)
    if name == '__dict__':
        return D
    key = VStr(eng.ctx.strid(name), name)
    has = eng.dict_has(D, key)
    fi = eng.prog.find_method(cname, name)
    if fi is not None:
        # a method looked up through the instance is shadowed by an instance-dict entry of the same name
        eng.oblige_safe('TypeError', z3.Not(has), f'shadowed-method:{name}')
        return VFunc('method', fi=fi, self=obj)
    eng.oblige_safe('AttributeError', has, f'attribute:{name}')
    raw = eng.dict_get(D, key)
    return ns_cast(eng, raw, _ns_types(eng, cname).get(name, 'int'))


def ns_setattr(eng, obj, name, v):
    D = eng.read_field(obj, '__dict__', NS_DICT)
    eng.dict_set(D, VStr(eng.ctx.strid(name), name), v)
    return True


def tags_module_library(eng, module, name):
    r = VRef(z3.Int('module_library'), ty.TRef('TagLibrary'))
    return eng.typed(r)


def bi_next(eng, args, kwargs, node):
    """next(it) on an iterator that the engine models as the list of everything it will yield (Pool.imap*): a ghost
    cursor per iterator object (ghost().iter_pos[it]); exhausting it raises StopIteration."""
    it = args[0]
    if not (isinstance(it, VRef) and isinstance(it.typ, ty.TList)) or len(args) != 1:
        raise Unsupported('next() on this object')
    cur = eng.arr(('g', 'iter_pos'))
    pos = z3.Select(cur, it.term)
    eng.oblige_safe('StopIteration', z3.And(pos >= 0, pos < eng.llen(it)), 'next')
    v = eng.list_get_typed(it, pos)
    eng.S.h[('g', 'iter_pos')] = z3.Store(cur, it.term, pos + 1)
    return v


def bi_hasattr(eng, args, kwargs, node):
    """hasattr(cls, name) for a repository class and a symbolic name: true for every name defined in the class
    body (from the AST) and for the attributes every object has (assumed: dir(object) of CPython)."""
    c, name = args
    cname = getattr(c, 'name', None)
    if cname is None or cname not in eng.prog.classes:
        if isinstance(c, VCls) or (isinstance(c, VFunc) and c.kind == 'class'):
            cname = 'TagLibrary' if 'TagLibrary' in eng.prog.classes else None
        if cname is None:
            raise Unsupported('hasattr on this object')
    f = z3.Function('class_attr_' + cname, I, B)
    known = set()
    for k in eng.prog.mro(cname):
        ci = eng.prog.classes[k]
        known |= set(ci.methods) | set(ci.class_attrs) | set(ci.properties)
    known |= {'__dict__', '__class__', '__init__', '__doc__', '__module__', '__weakref__', '__eq__', '__hash__',
              '__repr__', '__str__', '__new__', '__getattribute__', '__setattr__', '__delattr__', '__dir__',
              '__reduce__', '__reduce_ex__', '__sizeof__', '__format__', '__init_subclass__', '__subclasshook__',
              '__ne__', '__lt__', '__le__', '__gt__', '__ge__', '__getstate__'}
    for k in sorted(known):
        eng.fact(f(eng.ctx.strid(k)))
    eng.used_assumption('hasattr(type(library), name): true for the names defined in the class body (AST) and for '
                        "CPython's object attributes; unconstrained for other names")
    return VBool(f(name.term))


def install(eng):
    eng.ext_contracts.update(EXTERNALS)
    eng.attr_hooks[('TagLibrary', '*')] = ns_getattr
    eng.setattr_hooks[('TagLibrary', '*')] = ns_setattr
    eng.attr_hooks[('global:Tags', '_module_library')] = tags_module_library
    eng.builtin_hooks['hasattr'] = bi_hasattr
    eng.builtin_hooks['dict'] = bi_dict
    eng.builtin_hooks['dict.update'] = bi_dict_update
    eng.builtin_hooks['open'] = bi_open
    eng.builtin_hooks['getattr'] = bi_getattr
    eng.builtin_hooks['next'] = bi_next
    eng.with_hooks['pool'] = with_pool
    eng.with_hooks['file'] = with_pool       # `with open(..) as f:` - bind f, run the body (closing is not modelled)
    eng._products = {}
    eng._star_arg = None
    eng.attr_hooks[('module:Tags', '*')] = tags_module_attr
    eng.attr_hooks[('Logger', '*')] = None
    for k in [k for k, v in eng.attr_hooks.items() if v is None]:
        del eng.attr_hooks[k]
    for k in [k for k, v in eng.builtin_hooks.items() if v is None]:
        del eng.builtin_hooks[k]


def tags_module_attr(eng, mod, name):
    if name == 'NONE':
        eng.used_assumption('Tags.NONE == 0 (established by TagLibrary.__init__, proved under C19)')
        return VInt(0)
    raise Unsupported(f'Tags.{name}')


# ---------------------------------------------------------------------------------- externals
def ext_logger_noop(eng, selfv, args, kwargs):
    eng.used_assumption('logging calls do not touch model state')
    return VNone()


def ext_logger_query(eng, selfv, args, kwargs):
    eng.used_assumption('the logging configuration is arbitrary: isEnabledFor / level queries return any value')
    return VBool(eng.fresh('log_enabled', z3.BoolSort()))


def ext_logger_level(eng, selfv, args, kwargs):
    eng.used_assumption('the logging configuration is arbitrary: isEnabledFor / level queries return any value')
    return VInt(eng.fresh('log_level', z3.IntSort()))


def ext_get_logger(eng, selfv, args, kwargs):
    eng.used_assumption('logging.getLogger returns a logger object; logging does not touch model state')
    return eng.alloc(ty.TRef('Logger'))


def ext_random_new(eng, selfv, args, kwargs):
    eng.used_assumption('random.Random(seed) is a fresh generator whose stream is a function of the seed only '
                        '(seed None / no argument: OS entropy)')
    r = eng.alloc(ty.TRef('Random'))
    f = z3.Function('rng_seed', I, I)
    if args:
        eng.fact(f(r.term) == eng.coerce(args[0], ty.ANY))
    return r


def ext_global_random(name):
    def h(eng, selfv, args, kwargs):
        """random.choice / random.shuffle on the *global* generator: same value contract as the method, but the
        effect check of C07 refuses it (receiver is not the model's generator)."""
        return (ext_random_choice if name == 'choice' else ext_random_shuffle)(eng, None, args, kwargs)
    return h


def chk_rng_only_model_random(eng, env):
    """C07 effect contract: every draw made by this function is made on self.model.random."""
    selfv = env['self']
    model = eng.read_field(selfv, 'model')
    rng = eng.read_field(model, 'random')
    for name, recv, args in eng.extlog:
        if name.startswith('Random.'):
            eng.oblige(f'effect:rng-receiver:{name}', recv.term == rng.term, kind='assert', props=['C07'])
        elif name.startswith('random.') or name.startswith('numpy.random'):
            eng.oblige(f'effect:rng-receiver:{name}', z3.BoolVal(False), kind='assert', props=['C07'])


EFFECT_CHECKS = {'rng_only_model_random': chk_rng_only_model_random}


def ext_random_choice(eng, selfv, args, kwargs):
    eng.used_assumption('random.Random.choice(seq) returns seq[k] for some 0 <= k < len(seq) (every k reachable is a '
                        'property of the generator, not proved); its result is a function of the generator state only')
    L = args[0]
    if not (isinstance(L, VRef) and isinstance(L.typ, ty.TList)):
        raise Unsupported('Random.choice on a non-list')
    n = eng.llen(L)
    eng.oblige_safe('IndexError', n > 0, 'choice-from-empty')
    k = eng.fresh('choice_k', I)
    eng.fact(z3.And(0 <= k, k < n))
    return eng.list_get_typed(L, k)


def ext_random_shuffle(eng, selfv, args, kwargs):
    eng.used_assumption('random.Random.shuffle(lst) permutes lst in place (same multiset), touching nothing else')
    L = args[0]
    if not (isinstance(L, VRef) and isinstance(L.typ, ty.TList)):
        raise Unsupported('Random.shuffle on a non-list')
    n = eng.llen(L)
    olds = eng.lel_arrays(L)
    eng.ctx.n += 1
    perm = z3.Function(f'perm!{eng.ctx.n}', I, I)
    inv = z3.Function(f'perminv!{eng.ctx.n}', I, I)
    i = z3.Int('pi')
    news = []
    for a in olds:
        na = eng.fresh('shuf', a.sort())
        eng.fact(z3.ForAll([i], z3.Implies(z3.And(0 <= i, i < n),
                                           z3.And(0 <= perm(i), perm(i) < n, inv(perm(i)) == i,
                                                  z3.Select(na, i) == z3.Select(a, perm(i)))),
                           patterns=[z3.Select(na, i)]))
        eng.fact(z3.ForAll([i], z3.Implies(z3.And(0 <= i, i < n),
                                           z3.And(0 <= inv(i), inv(i) < n, perm(inv(i)) == i,
                                                  z3.Select(na, inv(i)) == z3.Select(a, i))),
                           patterns=[z3.Select(a, i)]))
        news.append(na)
    eng.list_set_all(L, n, news)
    return VNone()


# ------------------------------------------------------------------ pandas / numpy (assumed contracts, DESIGN 5/C11)
DF_POS = ty.parse('list[tuple[int,int,int]]')
DF_COLS = ty.parse('dict[str,list[any]]')
LIST_ANY = ty.parse('list[any]')
PANDAS = ('pandas: DataFrame({"pos": L}) copies L into column pos; df[c] = seq stores a copy of seq (element i in row i, '
          'length must equal the row count) leaving other columns and the row set untouched; c in df is column '
          'membership; drop(columns=[c], inplace=True) removes only c; iloc[i] is row i with all columns')


def _as_list_any(eng, v):
    if isinstance(v, VRef) and isinstance(v.typ, ty.TList):
        return v
    if isinstance(v, VRef) and v.typ == ty.ANY:
        return VRef(v.term, LIST_ANY, v.st)
    raise Unsupported('sequence expected')


def ext_dataframe_new(eng, selfv, args, kwargs):
    eng.used_assumption(PANDAS)
    rec = args[0]
    if not hasattr(rec, 'items') or set(rec.items) != {'pos'}:
        raise Unsupported('DataFrame(...) of this shape')
    df = eng.alloc(ty.TRef('DataFrame'), cls=z3.IntVal(eng.cls_id('DataFrame')))
    eng.write_field(df, 'pos', eng.list_copy(rec.items['pos']))
    eng.write_field(df, 'cols', eng.new_dict(DF_COLS))
    return df


def ext_df_getitem(eng, df, args, kwargs):
    eng.used_assumption(PANDAS)
    key = args[0]
    if isinstance(key, VStr) and key.lit == 'pos':
        return eng.read_field(df, 'pos', DF_POS)
    cols = eng.read_field(df, 'cols', DF_COLS)
    eng.oblige_safe('KeyError', eng.dict_has(cols, key), 'df-column')
    return eng.dict_get(cols, key)


def ext_df_setitem(eng, df, args, kwargs):
    eng.used_assumption(PANDAS)
    key, values = args
    src = _as_list_any(eng, values)
    pos = eng.read_field(df, 'pos', DF_POS)
    eng.oblige_safe('ValueError', eng.llen(src) == eng.llen(pos), 'df-column-length')
    if src.typ.key != LIST_ANY.key:
        raise Unsupported(f'column of element type {src.typ.elem}')
    col = eng.list_copy(src, LIST_ANY)
    cols = eng.read_field(df, 'cols', DF_COLS)
    eng.dict_set(cols, key, col)
    return VNone()


def ext_df_contains(eng, df, args, kwargs):
    eng.used_assumption(PANDAS)
    key = args[0]
    cols = eng.read_field(df, 'cols', DF_COLS)
    return VBool(z3.Or(key.term == eng.ctx.strid('pos'), eng.dict_has(cols, key)))


def ext_df_drop(eng, df, args, kwargs):
    eng.used_assumption(PANDAS)
    names = kwargs.get('columns')
    if not (isinstance(names, VRef) and isinstance(names.typ, ty.TList)):
        raise Unsupported('drop(columns=...) of this shape')
    eng.oblige_safe('drop-one', eng.llen(names) == 1, 'drop of exactly one column')
    name = eng.list_get(names, z3.IntVal(0))
    cols = eng.read_field(df, 'cols', DF_COLS)
    eng.oblige_safe('KeyError', eng.dict_has(cols, name), 'drop-column')
    eng.dict_del(cols, name)
    return VNone()


def ext_df_iloc(eng, df, args, kwargs):
    eng.used_assumption(PANDAS)
    i = eng.arith_term(args[0])
    pos = eng.read_field(df, 'pos', DF_POS)
    eng.oblige_safe('IndexError', z3.And(i >= 0, i < eng.llen(pos)), 'iloc')
    row = eng.alloc(ty.TRef('Row'), cls=z3.IntVal(eng.cls_id('Row')))
    eng.write_field(row, 'df', df)
    eng.write_field(row, 'idx', VInt(i))
    return row


def ext_df_len(eng, df, args, kwargs):
    eng.used_assumption(PANDAS)
    return VInt(eng.llen(eng.read_field(df, 'pos', DF_POS)))


def ext_np_copy(eng, selfv, args, kwargs):
    eng.used_assumption('numpy.copy(a) returns a fresh array with the same elements')
    return eng.list_copy(_as_list_any(eng, args[0]), LIST_ANY)


def ext_isinstance(eng, selfv, args, kwargs):
    v, c = args
    f = z3.Function('isinstance_' + c.name.replace('.', '_'), I, B)
    return VBool(f(v.term))


# ------------------------------------------------------------------ itertools.product / dict (assumed, C14)
PRODUCT = ('itertools.product(*lists): a sequence of tuples, tuple i taking from list j the element with index '
           'digit(i, j) where i -> digits is the mixed-radix bijection onto the index box, first list slowest '
           '(every combination exactly once, lexicographic); dict(pairs) builds a new dictionary with exactly those keys')


def ext_product(eng, selfv, args, kwargs, star=None):
    eng.used_assumption(PRODUCT)
    lists = eng._star_arg
    if lists is None:
        raise Unsupported('itertools.product without *lists')
    n = eng.llen(lists)
    eng.ctx.n += 1
    tag = eng.ctx.n
    R = eng.alloc(ty.parse('list[any]'))
    plen = eng.fresh('product_len', I)
    dg = z3.Function(f'digit!{tag}', I, I, I)
    tup = eng.fresh('product_items', z3.ArraySort(I, I))
    i, j = z3.Int('pi'), z3.Int('pj')
    inner_len = lambda jj: z3.Select(eng.arr(('llen', lists.typ.elem.key)), z3.Select(eng.lel_arrays(lists)[0], jj))
    eng.fact(plen >= 0)
    eng.fact(z3.Implies(n == 0, plen == 1))
    eng.fact(z3.ForAll([j], z3.Implies(z3.And(0 <= j, j < n, inner_len(j) == 0), plen == 0)))
    eng.fact(z3.Implies(z3.ForAll([j], z3.Implies(z3.And(0 <= j, j < n), inner_len(j) >= 1)), plen >= 1))
    pl_j = z3.Select(eng.lel_arrays(lists)[0], j)
    eng.fact(z3.ForAll([i, j], z3.Implies(z3.And(0 <= i, i < plen, 0 <= j, j < n),
                                          z3.And(0 <= dg(i, j), dg(i, j) < inner_len(j))),
                       patterns=[z3.MultiPattern(z3.Select(tup, i), pl_j)]))
    eng.list_set_all(R, plen, [tup])
    eng._products[tag] = dict(lists=lists, digit=dg, R=R, tup=tup, n=n, state=eng.S.copy())
    R.ext_kind = None
    R.product_tag = tag
    return R


def bi_dict(eng, args, kwargs, node):
    """dict(t) for t an element of an itertools.product(...) sequence: an abstract record value."""
    eng.used_assumption(PRODUCT)
    if len(args) != 1 or not (isinstance(args[0], VRef) and args[0].typ == ty.ANY):
        raise Unsupported('dict(...) of this argument')
    t = args[0]
    prod = None
    for tag, p in eng._products.items():
        prod = p          # the element must come from the (single) product of this path
    if prod is None:
        raise Unsupported('dict(x): x is not an element of an itertools.product sequence')
    f = z3.Function('dict_of', I, I)
    d = VRef(f(t.term), ty.ANY)
    rec_has = z3.Function('rec_has', I, I, B)
    rec_get = z3.Function('rec_get', I, I, I)
    kidx = z3.Function('rec_keyidx', I, I, I)
    lists, dg, R, tup, n, st = prod['lists'], prod['digit'], prod['R'], prod['tup'], prod['n'], prod['state']
    inner_t = lists.typ.elem
    i, j, k = z3.Int('di'), z3.Int('dj'), z3.Int('dk')
    lst_j = z3.Select(eng.lel_arrays(VRef(lists.term, lists.typ, st))[0], j)
    inner = VRef(lst_j, inner_t, st)
    arrs = eng.lel_arrays(inner)                     # slots of tuple[str, any]: [key, value]
    plen = eng.llen(VRef(R.term, R.typ, st))
    key_ij = z3.Select(arrs[0], dg(i, j))
    val_ij = z3.Select(arrs[1], dg(i, j))
    drec = f(z3.Select(tup, i))
    # the record of tuple i has, for every list j, the key of its chosen pair ...
    pat = [z3.MultiPattern(z3.Select(tup, i), lst_j)]
    eng.fact(z3.ForAll([i, j], z3.Implies(z3.And(0 <= i, i < plen, 0 <= j, j < n), rec_has(drec, key_ij)),
                       patterns=pat))
    # ... and no other key
    kj = kidx(drec, k)
    lst_kj = z3.Select(eng.lel_arrays(VRef(lists.term, lists.typ, st))[0], kj)
    key_kj = z3.Select(eng.lel_arrays(VRef(lst_kj, inner_t, st))[0], dg(i, kj))
    val_kj = z3.Select(eng.lel_arrays(VRef(lst_kj, inner_t, st))[1], dg(i, kj))
    # every key of the record comes from one pair of the tuple (the last one carrying it), with that pair's value
    eng.fact(z3.ForAll([i, k], z3.Implies(z3.And(0 <= i, i < plen, rec_has(drec, k)),
                                          z3.And(0 <= kj, kj < n, key_kj == k, rec_get(drec, k) == val_kj)),
                       patterns=[rec_has(drec, k)]))
    return d


def _ext_agg(name):
    def h(eng, selfv, args, kwargs):
        eng.used_assumption('min / max / sum / statistics.mean / statistics.variance are the mathematical aggregates '
                            'of the given sequence (uninterpreted here: only the dispatch is verified)')
        lst = args[0]
        f = z3.Function('agg_' + name, I, eng.ctx.num)
        return VNum(f(lst.term))
    return h


def ext_partial(eng, selfv, args, kwargs):
    return VFunc('partial', func=args[0], args=list(args[1:]), kwargs=dict(kwargs))


# ------------------------------------------------------------------ dict.update / files (assumed, C17)
def bi_dict_update(eng, args, kwargs, node):
    """d.update(other) for an opaque mapping `other`: afterwards d has its old keys plus other's keys, other's
    values winning (keys / values of `other` through the uninterpreted rec_has / rec_get)."""
    d, other = args
    eng.used_assumption('dict.update(m): keys of m added to the dictionary, values of m win; m is only read')
    tk = d.typ.key
    has, vals, stamp, clock, size = eng.d_parts(d)
    rec_has = z3.Function('rec_has', I, I, B)
    rec_get = z3.Function('rec_get', I, I, I)
    nh = eng.fresh('upd_has', has.sort())
    nv = eng.fresh('upd_val', vals[0].sort())
    ns = eng.fresh('upd_stamp', stamp.sort())
    nsize = eng.fresh('upd_size', I)
    nclock = eng.fresh('upd_clock', I)
    k = z3.Int('uk')
    eng.fact(z3.ForAll([k], z3.Select(nh, k) == z3.Or(z3.Select(has, k), rec_has(other.term, k))))
    eng.fact(z3.ForAll([k], z3.Select(nv, k) == z3.If(rec_has(other.term, k), rec_get(other.term, k), z3.Select(vals[0], k))))
    eng.fact(z3.ForAll([k], z3.Implies(z3.Select(has, k), z3.Select(ns, k) == z3.Select(stamp, k))))
    eng.fact(z3.And(nsize >= size, nclock >= clock))
    eng.fact(z3.Implies(z3.ForAll([k], z3.Not(rec_has(other.term, k))), nsize == size))
    eng.fact(z3.Implies(z3.Exists([k], rec_has(other.term, k)), nsize >= 1))
    eng.set_arr(('dhas', tk), z3.Store(eng.arr(('dhas', tk)), d.term, nh))
    eng.set_arr(('dval', tk, 0), z3.Store(eng.arr(('dval', tk, 0)), d.term, nv))
    eng.set_arr(('dstamp', tk), z3.Store(eng.arr(('dstamp', tk)), d.term, ns))
    eng.set_arr(('dsize', tk), z3.Store(eng.arr(('dsize', tk)), d.term, nsize))
    eng.set_arr(('dclock', tk), z3.Store(eng.arr(('dclock', tk)), d.term, nclock))
    return VNone()


FILES = ('open(name, mode) in append mode positions at the end of the existing text; file.write(s) appends s; close() keeps '
         'it (no durability / mid-write crash model): the text of a file is modelled as the list of records written to it')


def bi_open(eng, args, kwargs, node):
    eng.used_assumption(FILES)
    name = args[0]
    f = eng.alloc(ty.TRef('File'), cls=z3.IntVal(eng.cls_id('File')))
    f.ext_kind = 'file'
    log = z3.Function('file_log', I, I)
    eng.write_field(f, 'log', VRef(log(name.term), ty.parse('list[any]')))
    eng.write_field(f, 'mode', args[1] if len(args) > 1 else VStr(eng.ctx.strid('r'), 'r'))
    return f


def ext_file_write(eng, f, args, kwargs):
    eng.used_assumption(FILES)
    lg = eng.read_field(f, 'log', ty.parse('list[any]'))
    eng.list_append(lg, args[0])
    return VNone()


def ext_json_load(eng, selfv, args, kwargs):
    """json.load(f): the parsed content of the file - an opaque value that is a function of the file's log (name)."""
    eng.used_assumption('json.load(file) returns the parsed content of that file (a function of the file), nothing else')
    f = args[0]
    lg = eng.read_field(f, 'log', ty.parse('list[any]'))
    g = z3.Function('json_content', I, I)
    return VRef(g(lg.term), ty.ANY)


def ext_file_close(eng, f, args, kwargs):
    return VNone()


def _overlay(eng, st=None):
    """Ghost overlay of item assignments on opaque (description) dictionaries: X[k] = v."""
    has = eng.S.h.get(('g', '$ov_has')) if st is None else st.h.get(('g', '$ov_has'))
    val = eng.S.h.get(('g', '$ov_val')) if st is None else st.h.get(('g', '$ov_val'))
    if has is None:
        has = z3.K(I, z3.K(I, z3.BoolVal(False)))
        val = z3.K(I, z3.K(I, z3.IntVal(0)))
    return has, val


def ext_any_getitem(eng, obj, args, kwargs):
    eng.used_assumption('indexing an opaque value (user table, decoded description) is a pure function of (object, key), '
                        'overridden by item assignments made by the verified function itself')
    k = args[0]
    kt = k.term if hasattr(k, 'term') and k.term.sort() == I else eng.coerce(k, ty.ANY)
    fn = z3.Function('item_of', I, I, I)
    has, val = _overlay(eng, obj.st)
    return VRef(z3.If(z3.Select(z3.Select(has, obj.term), kt), z3.Select(z3.Select(val, obj.term), kt),
                      fn(obj.term, kt)), ty.ANY, obj.st)


def ext_any_setitem(eng, obj, args, kwargs):
    k, v = args
    kt = k.term if hasattr(k, 'term') and k.term.sort() == I else eng.coerce(k, ty.ANY)
    vt = eng.coerce(v, ty.ANY)
    has, val = _overlay(eng)
    eng.S.h[('g', '$ov_has')] = z3.Store(has, obj.term, z3.Store(z3.Select(has, obj.term), kt, z3.BoolVal(True)))
    eng.S.h[('g', '$ov_val')] = z3.Store(val, obj.term, z3.Store(z3.Select(val, obj.term), kt, vt))
    return VNone()


def ext_any_contains(eng, obj, args, kwargs):
    rec_has = z3.Function('rec_has', I, I, B)
    k = args[0]
    return VBool(rec_has(obj.term, k.term))


def ext_any_decode(eng, callee, args, kwargs):
    """X.decode(params) of a user class (IDecodable): returns the decoded object (opaque)."""
    eng.used_assumption('decode classmethods and lifecycle hooks are user code: they do not mutate the description')
    return VRef(eng.fresh('decoded', I), ty.ANY)


def ext_sys_modules(eng, selfv, args, kwargs):
    f = z3.Function('module_named', I, I)
    return VRef(f(args[0].term), ty.ANY)


def bi_getattr(eng, args, kwargs, node):
    """getattr(module, name, default): name resolution through sys.modules (uninterpreted `resolve`)."""
    obj, name = args[0], args[1]
    f = z3.Function('resolve_attr', I, I, I)
    return VRef(f(obj.term, name.term), ty.ANY)


# ------------------------------------------------------------------ multiprocessing.Pool (assumed, C15 / C16)
POOL = ('multiprocessing.Pool: imap(f, xs) yields f(x) for every x in order; imap_unordered(f, xs) yields each f(x) '
        'exactly once in some order; an exception raised in a worker is re-raised at the iterator; `with Pool(..)` '
        'only manages the workers (no schedule is explored)')


def ext_pool_new(eng, selfv, args, kwargs):
    eng.used_assumption(POOL)
    p = eng.alloc(ty.TRef('Pool'))
    p.ext_kind = 'pool'
    return p


def with_pool(eng, v, item, st):
    if item.optional_vars is not None:
        eng.assign(item.optional_vars, v)
    eng.exec_block(st.body)


def ext_pool_imap(unordered):
    def h(eng, pool, args, kwargs):
        """The worker calls happen 'elsewhere': modelled as one contract call of f per input (ghost run log), the
        outputs handed over in order (imap) or permuted (imap_unordered)."""
        eng.used_assumption(POOL)
        f, xs = args
        n = eng.llen(xs)
        out = eng.alloc(ty.parse('list[any]'))
        res = eng.arr(('g', 'run_res'))
        argm = eng.arr(('g', 'run_arg'))
        n0 = eng.arr(('g', 'n_runs'))
        nres = eng.fresh('run_res', res.sort())
        narg = eng.fresh('run_arg', argm.sort())
        arr = eng.fresh('pool_out', z3.ArraySort(I, I))
        j = z3.Int('pj')
        eng.fact(z3.ForAll([j], z3.Implies(j < n0, z3.And(z3.Select(nres, j) == z3.Select(res, j),
                                                           z3.Select(narg, j) == z3.Select(argm, j)))))
        eng.fact(z3.ForAll([j], z3.Implies(z3.And(0 <= j, j < n),
                                           z3.Select(narg, n0 + j) == z3.Select(eng.lel_arrays(xs)[0], j))))
        if unordered:
            eng.ctx.n += 1
            perm = z3.Function(f'poolperm!{eng.ctx.n}', I, I)
            inv = z3.Function(f'poolinv!{eng.ctx.n}', I, I)
            eng.fact(z3.ForAll([j], z3.Implies(z3.And(0 <= j, j < n),
                                               z3.And(0 <= perm(j), perm(j) < n, inv(perm(j)) == j,
                                                      0 <= inv(j), inv(j) < n, perm(inv(j)) == j,
                                                      z3.Select(arr, j) == z3.Select(nres, n0 + perm(j))))))
        else:
            eng.fact(z3.ForAll([j], z3.Implies(z3.And(0 <= j, j < n), z3.Select(arr, j) == z3.Select(nres, n0 + j))))
        eng.S.h[('g', 'run_res')] = nres
        eng.S.h[('g', 'run_arg')] = narg
        eng.S.h[('g', 'n_runs')] = n0 + n
        eng.list_set_all(out, n, [arr])
        eng.S.h[('g', 'iter_pos')] = z3.Store(eng.arr(('g', 'iter_pos')), out.term, z3.IntVal(0))   # a fresh iterator
        # every worker call satisfies the (view) contract of the mapped function
        fn = f
        pargs, pkw = [], {}
        if isinstance(fn, VFunc) and fn.kind == 'partial':
            pargs, pkw, fn = list(fn.args), dict(fn.kwargs), fn.func
        if isinstance(fn, VFunc) and fn.kind == 'function':
            c = eng.specs.lookup(fn.fi, eng.view)
            if c is not None and c.ensures:
                jj = z3.Int(f'pw!{eng.ctx.n}')
                save_q, save_g = eng.qvars, eng.qguards
                eng.qvars = list(save_q) + [jj]
                eng.qguards = list(save_g) + [z3.And(0 <= jj, jj < n)]
                try:
                    x = eng.list_get(xs, jj)
                    env = eng.bind_params(fn.fi.node, pargs + [x], dict(pkw), fn.fi.module)
                    env['result'] = VRef(z3.Select(nres, n0 + jj), ty.ANY)
                    for tag, preds in c.ensures.items():
                        for pred in preds:
                            names = set(a.arg for a in __import__('pyvc.specs', fromlist=['pred_ast']).pred_ast(pred).args.args)
                            if names <= set(env):
                                for label, term in eng.spec_terms(pred, env):
                                    eng.fact(term)
                finally:
                    eng.qvars, eng.qguards = save_q, save_g
        return out
    return h


def ext_any_call(eng, f, args, kwargs):
    eng.used_assumption('user-supplied callables (generators, score / agent functions) are pure functions of their arguments')
    terms = []
    args = list(args) + ([kwargs['**']] if kwargs.get('**') is not None and hasattr(kwargs['**'], 'term') else [])
    for a in args:
        if isinstance(a, VTuple):
            terms.append(eng.box_tuple(a))
        elif hasattr(a, 'term'):
            terms.append(a.term if a.term.sort() == I else eng.coerce(a, ty.ANY))
        else:
            raise Unsupported('argument of a user callable')
    fn = z3.Function(f'call_res{len(terms)}', *([I] * (len(terms) + 1)), I)
    return VRef(fn(f.term, *terms), ty.ANY)


EXTERNALS = {
    'pandas.DataFrame': ext_dataframe_new,
    'DataFrame.__getitem__': ext_df_getitem,
    'DataFrame.__setitem__': ext_df_setitem,
    'DataFrame.__contains__': ext_df_contains,
    'DataFrame.drop': ext_df_drop,
    'DataFrame.__len__': ext_df_len,
    'DataFrame.iloc.__getitem__': ext_df_iloc,
    'numpy.copy': ext_np_copy,
    'isinstance': ext_isinstance,
    'any.__call__': ext_any_call,
    'multiprocessing.Pool': ext_pool_new,
    'Pool.imap_unordered': ext_pool_imap(True), 'Pool.imap': ext_pool_imap(False),
    'itertools.product': ext_product,
    'File.write': ext_file_write, 'File.close': ext_file_close,
    'min': _ext_agg('min'), 'max': _ext_agg('max'), 'sum': _ext_agg('sum'),
    'statistics.mean': _ext_agg('mean'), 'statistics.variance': _ext_agg('variance'),
    'functools.partial': ext_partial,
    'any.__getitem__': ext_any_getitem,
    'any.__setitem__': ext_any_setitem,
    'any.__contains__': ext_any_contains,
    'any.decode': ext_any_decode,
    'sys.modules.__getitem__': ext_sys_modules,
    'random.choice': ext_global_random('choice'), 'random.shuffle': ext_global_random('shuffle'),
    'Random.choice': ext_random_choice,
    'Random.shuffle': ext_random_shuffle,
    'Logger.info': ext_logger_noop,
    'Logger.setLevel': ext_logger_noop,
    'Logger.debug': ext_logger_noop, 'Logger.warning': ext_logger_noop, 'Logger.error': ext_logger_noop,
    'Logger.isEnabledFor': ext_logger_query, 'Logger.hasHandlers': ext_logger_query,
    'Logger.getEffectiveLevel': ext_logger_level,
    'logging.getLogger': ext_get_logger,
    'json.load': ext_json_load,
    'logging.INFO': None,
    'random.Random': ext_random_new,
}
EXTERNALS = {k: v for k, v in EXTERNALS.items() if v is not None}


# ---------------------------------------------------------------------------------- ghost effects
def eff_sched_ghost_init(eng, env, pre):
    """Per-call monitors of execute_systems: nothing has run yet in this timestep."""
    eng.S.h[('g', 'runs')] = z3.K(I, z3.IntVal(0))
    eng.S.h[('g', 'last')] = z3.IntVal(0)


def eff_system_execute(eng, env, pre):
    """Ghost bookkeeping + assumed frame of user code System.execute (DESIGN Appendix B)."""
    me = env['self'].term
    runs = eng.arr(('g', 'runs'))
    eng.S.h[('g', 'runs')] = z3.Store(runs, me, z3.Select(runs, me) + 1)
    eng.S.h[('g', 'last')] = me
    # _status only ever moves RUNNING -> COMPLETE (user code may call model.complete(), never un-complete)
    old = eng.arr(('f', '_status'), pre)
    new = eng.arr(('f', '_status'))
    r = z3.Int('r')
    eng.fact(z3.ForAll([r], z3.Or(z3.Select(new, r) == z3.Select(old, r),
                                  z3.And(z3.Select(old, r) == 0, z3.Select(new, r) == 1))))
    eng.used_assumption('System.execute (user code): may complete the model and edit agents/components/environment; '
                        'does not write timestep, the system set, or id/priority/start/end/frequency of systems; '
                        'never resets a completed model')


def eff_sched_ghost_init_dyn(eng, env, pre):
    eff_sched_ghost_init(eng, env, pre)
    eng.S.h[('g', 'removed')] = z3.K(I, z3.BoolVal(False))
    eng.S.h[('g', 'added')] = z3.K(I, z3.BoolVal(False))


def eff_system_execute_dyn(eng, env, pre):
    """Dynamic view (C05): user code may also add / remove systems; removed / added only grow."""
    eff_system_execute(eng, env, pre)
    r = z3.Int('r')
    for g in ('removed', 'added'):
        old = eng.arr(('g', g), pre)
        new = eng.fresh('g_' + g, old.sort())
        eng.S.h[('g', g)] = new
        eng.fact(z3.ForAll([r], z3.Implies(z3.Select(old, r), z3.Select(new, r))))
    eng.used_assumption('System.execute (user code, dynamic view): may call add_system / remove_system on its own '
                        "model's scheduler any number of times (op-sequence summary: the representation invariant "
                        'holds afterwards, a system that stopped being registered is in `removed`, one that became '
                        'registered is in `added`)')


def _g(eng, name, default=None):
    return eng.arr(('g', name))


def eff_decode_init(eng, env, pre):
    for n in ('pre_model_done', 'model_done', 'post_model_done'):
        eng.S.h[('g', n)] = z3.BoolVal(False)
    for n in ('n_sys_decoded', 'n_sys_added', 'n_agents_decoded', 'n_agents_added', 'last_obj'):
        eng.S.h[('g', n)] = z3.IntVal(0)
    for n in ('sys_pre_done', 'sys_post_done', 'grp_pre_done', 'grp_post_done'):
        eng.S.h[('g', n)] = z3.K(I, z3.BoolVal(False))
    eng.S.h[('g', '$ov_has')] = z3.K(I, z3.K(I, z3.BoolVal(False)))
    eng.S.h[('g', '$ov_val')] = z3.K(I, z3.K(I, z3.IntVal(0)))


def _set(name, fn):
    def eff(eng, env, pre):
        fn(eng, env)
    return eff


def _flag(name):
    return lambda eng, env: eng.S.h.__setitem__(('g', name), z3.BoolVal(True))


def _inc(name):
    return lambda eng, env: eng.S.h.__setitem__(('g', name), eng.arr(('g', name)) + 1)


def _mapset(name, idxvar):
    def f(eng, env):
        a = eng.arr(('g', name))
        eng.S.h[('g', name)] = z3.Store(a, env[idxvar].term, z3.BoolVal(True))
    return f


def _decoded(counter):
    def f(eng, env):
        eng.S.h[('g', counter)] = eng.arr(('g', counter)) + 1
        eng.S.h[('g', 'last_obj')] = env['result'].term
    return f


def _model_made(eng, env):
    eng.S.h[('g', 'model_done')] = z3.BoolVal(True)


def _group_reset(eng, env):
    pass


def eff_batch_init(eng, env, pre):
    eng.S.h[('g', 'n_runs')] = z3.IntVal(0)
    eng.S.h[('g', 'n_built')] = z3.IntVal(0)


def eff_run_logged(eng, env, pre):
    """Ghost execution log of batch_run: one entry per _run_model_for_batch call (argument, result)."""
    n = eng.arr(('g', 'n_runs'))
    eng.S.h[('g', 'run_arg')] = z3.Store(eng.arr(('g', 'run_arg')), n, env['kwargs'].term)
    r = env.get('result')
    eng.S.h[('g', 'run_res')] = z3.Store(eng.arr(('g', 'run_res')), n, r.term if hasattr(r, 'term') else z3.IntVal(0))
    eng.S.h[('g', 'n_runs')] = n + 1


def eff_model_built(eng, env, pre):
    eng.S.h[('g', 'n_built')] = eng.arr(('g', 'n_built')) + 1


EFFECTS = {
    'batch_init': eff_batch_init,
    'run_logged': eff_run_logged,
    'model_built': eff_model_built,
    'decode_init': eff_decode_init,
    'ev_pre_model': _set('pre_model', _flag('pre_model_done')),
    'ev_model': _set('model', _model_made),
    'ev_post_model': _set('post_model', _flag('post_model_done')),
    'ev_sys_pre': _set('sys_pre', _mapset('sys_pre_done', 'si')),
    'ev_sys_post': _set('sys_post', _mapset('sys_post_done', 'si')),
    'ev_sys_decoded': _set('sys_dec', _decoded('n_sys_decoded')),
    'ev_sys_added': _set('sys_add', _inc('n_sys_added')),
    'ev_grp_pre': _set('grp_pre', _mapset('grp_pre_done', 'gi')),
    'ev_grp_post': _set('grp_post', _mapset('grp_post_done', 'gi')),
    'ev_agent_decoded': _set('ag_dec', _decoded('n_agents_decoded')),
    'ev_agent_added': _set('ag_add', _inc('n_agents_added')),
    'sched_ghost_init_dyn': eff_sched_ghost_init_dyn,
    'system_execute_dyn': eff_system_execute_dyn,
    'sched_ghost_init': eff_sched_ghost_init,
    'system_execute': eff_system_execute,
}
