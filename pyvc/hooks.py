"""Engine hooks: assumed contracts of libraries / builtins and special attribute models.

Everything registered here is an *assumption* (trusted), reported through eng.used_assumption().
"""
import z3
from . import types as ty
from .values import (I, B, VInt, VBool, VNum, VStr, VCls, VNone, VRef, VTuple, VFunc, VView, Unsupported)
from .heap import PyRaise


def install(eng):
    eng.ext_contracts.update(EXTERNALS)
    eng.attr_hooks[('module:Tags', '*')] = tags_module_attr
    eng.attr_hooks[('Logger', '*')] = None
    eng.builtin_hooks['hasattr'] = None
    for k in [k for k, v in eng.attr_hooks.items() if v is None]:
        del eng.attr_hooks[k]
    for k in [k for k, v in eng.builtin_hooks.items() if v is None]:
        del eng.builtin_hooks[k]


def tags_module_attr(eng, mod, name):
    if name == 'NONE':
        eng.used_assumption('Tags.NONE == 0 (established by TagLibrary.__init__, proved under C19)')
        return VInt(0)
    raise Unsupported(f'Tags.{name}')


# ---------------------------------------------------------------------------------- externals
def ext_logger_noop(eng, selfv, args, kwargs):
    eng.used_assumption('logging calls do not touch model state')
    return VNone()


def ext_get_logger(eng, selfv, args, kwargs):
    eng.used_assumption('logging.getLogger returns a logger object; logging does not touch model state')
    return eng.alloc(ty.TRef('Logger'))


def ext_random_new(eng, selfv, args, kwargs):
    eng.used_assumption('random.Random(seed) is a fresh generator whose stream is a function of the seed only')
    r = eng.alloc(ty.TRef('Random'))
    return r


EXTERNALS = {
    'Logger.info': ext_logger_noop,
    'Logger.setLevel': ext_logger_noop,
    'logging.getLogger': ext_get_logger,
    'logging.INFO': None,
    'random.Random': ext_random_new,
}
EXTERNALS = {k: v for k, v in EXTERNALS.items() if v is not None}
