"""Driver: verify one repository function against its sidecar contract -> list of obligations."""
import z3
from . import types as ty
from .values import (I, VInt, VBool, VNone, VRef, VTuple, VOld, State, Unsupported)
from .heap import PyRaise, PathEnd
from .calls import Frame, _Return
from .engine import Exec, Obligation

REAL = z3.RealSort()


class FunctionReport:
    def __init__(self, key):
        self.key = key
        self.obs = []
        self.paths = 0
        self.exits = []          # (kind, name, hyps)  for smoke checks
        self.error = None
        self.sha = None
        self.assumptions = set()
        self.mode = None
        self.case = None
        self.exit_pathends = []
        self.callees = set()     # checked (non-abstract) callee contracts whose clauses were assumed at call sites
        self.outcomes = []       # (kind, hyps, result value | exception class, top_env) per path  (pyvc/xcheck.py)


def verify_function(prog, reg, key, mode='int', case=None, pruning=True, max_paths=400, focus=None):
    fi = prog.func(key.split('#')[0])
    c = reg.contracts.get(key)
    if c is None:
        raise KeyError(f'no contract for {key}')
    rep = FunctionReport(key)
    rep.sha = fi.sha
    rep.mode = mode
    rep.case = case['name'] if case else None
    if getattr(c, 'skeleton', None) is not None:
        import ast as _ast
        actual = []

        def _visit(n):
            for ch in _ast.iter_child_nodes(n):
                if isinstance(ch, _ast.Call):
                    actual.append(ch.func.attr if isinstance(ch.func, _ast.Attribute) else
                                  (ch.func.id if isinstance(ch.func, _ast.Name) else '?'))
                _visit(ch)
        _visit(fi.node)
        if actual != list(c.skeleton):
            rep.error = ('unsupported:the call skeleton of the function changed (its call-site contracts are keyed by '
                         'source-order ordinal and no longer apply)')
            return rep
    script = []
    path_id = 0
    suffix = (f'[{c.variant}]' if c.variant else '') + ('' if mode == 'int' and len(c.modes) == 1 else f'[{mode}]') + (f'[{case["name"]}]' if case else '')
    while True:
        eng = Exec(prog, reg, num_sort=(I if mode == 'int' else REAL), pruning=pruning and c.pruning)
        eng.cur = c
        eng.cur_fi = fi
        eng.focus = focus
        eng.view = c.view or c.variant
        eng.path_id = path_id
        eng.script = script
        eng.pos = 0
        try:
            _run_path(eng, fi, c, case, rep, suffix)
        except PathEnd:
            if getattr(eng, '_at_exit', False):
                # the path reached an exit but the evaluation of its exit specification stopped: obligations may be
                # missing (never silently: reported in the evidence, and an error when nothing at all was obliged there)
                rep.exit_pathends.append(f'{fi.qualname}#p{path_id}')
        except Unsupported as ex:
            rep.error = f'unsupported:{ex}'
            rep.obs.extend(eng.obs)
            return rep
        rep.obs.extend(eng.obs)
        rep.assumptions |= eng.assumptions_used
        rep.callees |= eng.callee_used
        rep.paths += 1
        path_id += 1
        while script and script[-1][0] == script[-1][1] - 1:
            script.pop()
        if not script:
            break
        script[-1] = (script[-1][0] + 1, script[-1][1])
        if rep.paths > max_paths:
            rep.error = 'unsupported:path explosion'
            break
    for ob in rep.obs:
        ob.name = f'{ob.name.split("#p")[0]}{suffix}#p{ob.name.split("#p")[1]}' if '#p' in ob.name else ob.name
    return rep


def _run_path(eng, fi, c, case, rep, suffix):
    # ---- symbolic pre-state
    ptypes = dict(c.params)
    if case:
        ptypes.update(case.get('params', {}))
    node = fi.node
    a = node.args
    env = {}
    names = [p.arg for p in a.posonlyargs + a.args]
    for p in names:
        if p not in ptypes:
            raise Unsupported(f'parameter {p} of {fi.key} has no sidecar type')
        env[p] = eng.sym_value(p, ptypes[p])
    if a.vararg is not None:
        nm = '*' + a.vararg.arg
        if nm not in ptypes:
            raise Unsupported(f'parameter {nm} of {fi.key} has no sidecar type')
        env[a.vararg.arg] = eng.sym_value(a.vararg.arg, ptypes[nm])
    for p in a.kwonlyargs:
        if p.arg not in ptypes:
            raise Unsupported(f'parameter {p.arg} of {fi.key} has no sidecar type')
        env[p.arg] = eng.sym_value(p.arg, ptypes[p.arg])
    eng.top_env = dict(env)
    eng.pre_state = eng.S.copy()
    eng.cur_spec_module_push(c)
    # touch alloc so that it is part of the pre-state
    eng.arr('alloc')
    eng.pre_state = eng.S.copy()
    if c.ghost_init:
        from . import hooks as _hooks
        _hooks.EFFECTS[c.ghost_init](eng, env, None)
        eng.pre_state = eng.S.copy()
    # ---- requires
    penv = dict(env)
    penv['old'] = VOld(env, eng.pre_state)
    for pred in c.requires:
        for label, term in eng.spec_terms(pred, penv):
            eng.assume(term)
    if case and case.get('when') is not None:
        for label, term in eng.spec_terms(case['when'], penv):
            eng.assume(term)
    eng.pre_state = State(eng.S.h)
    eng.prune()
    # ---- body
    fr = Frame(fi, fi.module, dict(env), self_cls=(fi.cls.name if fi.cls else None))
    eng.frame = fr
    outcome = None
    try:
        eng.exec_block(node.body)
        outcome = ('normal', VNone())
    except _Return as r:
        outcome = ('normal', r.v)
    except PyRaise as ex:
        outcome = ('raise', ex)
    final_locals = dict(fr.locals)
    eng._at_exit = True
    eng.frame = Frame(None, fi.module, {})
    old = VOld(env, eng.pre_state)
    env2 = {k: v for k, v in final_locals.items() if not k.startswith('$')}     # final values of the locals ...
    env2.update(env)                                                          # ... parameters: their entry values
    env2['old'] = old
    dprops = list(c.props)
    if eng.focus is not None and eng.focus['cid'] not in dprops:
        dprops.append(eng.focus['cid'])
    hyps = list(eng.facts) + list(eng.pc)
    rep.outcomes.append((outcome[0], hyps, outcome[1] if outcome[0] == 'normal' else outcome[1].cls, dict(env)))
    if outcome[0] == 'normal':
        env2['result'] = outcome[1]
        rep.exits.append(('normal', f'{fi.qualname}/exit:normal{suffix}#p{eng.path_id}', hyps))
        # documented exceptions must have been raised when their condition held
        for exc, rd in c.raises.items():
            if rd.get('always'):
                eng.oblige(f'raises-always:{exc}:normal-exit', z3.BoolVal(False), kind='raises',
                           props=rd.get('props') or dprops)
            mustp = rd.get('must') or rd.get('when')
            if mustp is not None and rd.get('iff', True):
                terms = [t for _, t in eng.spec_terms(mustp, env2)]
                eng.oblige(f'raises-iff:{exc}:normal-exit', z3.Not(z3.And(terms)), kind='raises',
                           props=rd.get('props') or dprops)
        # the same predicate listed under several properties is one obligation carrying all of them (a second copy
        # would be discharged from the first one's staged goal - also when that first one is refuted)
        grouped = []
        for tag, preds in c.ensures.items():
            for pred in preds:
                for g in grouped:
                    if g[0] is pred:
                        g[1].append(tag)
                        break
                else:
                    grouped.append((pred, [tag]))
        for pred, tags in grouped:
            if not eng.in_focus(tags):
                continue
            for label, term in eng.spec_terms(pred, env2):
                eng.oblige(f'post:{label}', term, kind='post', props=list(tags))
                eng.assume(term)        # staged: a clause, once an obligation, is a hypothesis for the later ones
        for chk in (c.effects_check or []):
            from . import hooks as _hooks
            _hooks.EFFECT_CHECKS[chk](eng, env)
        eng.frame_check(eng.pre_state, c.modifies, env, 'normal', c.frame_props or dprops)
    else:
        ex = outcome[1]
        rep.exits.append(('raise:' + ex.cls, f'{fi.qualname}/exit:{ex.cls}{suffix}#p{eng.path_id}', hyps))
        rd = c.raises.get(ex.cls)
        if rd is None:
            eng.oblige(f'no-undeclared-exception:{ex.cls}' + (f':{ex.site}' if ex.site else ''),
                       z3.BoolVal(False), kind='raises')
            return
        if rd.get('when') is not None:
            for label, term in eng.spec_terms(rd['when'], env2):
                eng.oblige(f'raises-only-when:{ex.cls}:{label}', term, kind='raises',
                           props=rd.get('props') or dprops)
        for tag, preds in (rd.get('ensures') or {}).items():
            if not eng.in_focus([tag]):
                continue
            for pred in preds:
                for label, term in eng.spec_terms(pred, env2):
                    eng.oblige(f'xpost:{ex.cls}:{label}', term, kind='xpost', props=[tag])
        eng.frame_check(eng.pre_state, rd.get('modifies', []), env, ex.cls, rd.get('props') or c.frame_props or dprops)


def verify_lemma(prog, reg, lem, mode='int'):
    """A lemma is a spec predicate with typed free parameters: valid for all values (proved from specs only)."""
    eng = Exec(prog, reg, num_sort=(I if mode == 'int' else REAL), pruning=False)
    rep = FunctionReport('lemma:' + lem['name'])
    eng.cur = None
    eng.mod_lemma = not lem.get('engine_lemma')
    eng.top_env = {}
    eng.pre_state = eng.S.copy()
    env = {}
    for p, t in lem.get('params', {}).items():
        env[p] = eng.sym_value(p, t)
    eng.frame = Frame(None, '$spec:' + lem['fn'].__module__, {})
    eng.cur_spec_module = lem['fn'].__module__
    try:
        for pred in lem.get('given', []):
            for label, term in eng.spec_terms(pred, env):
                eng.assume(term)
        for label, term in eng.spec_terms(lem['fn'], env):
            ob = Obligation(f'lemma:{lem["name"]}/{label}', list(eng.facts) + list(eng.pc), term, lem['props'],
                            'lemma', 'lemma:' + lem['name'])
            rep.obs.append(ob)
        rep.exits.append(('normal', f'lemma:{lem["name"]}/hyps', list(eng.facts) + list(eng.pc)))
    except Unsupported as ex:
        rep.error = f'unsupported:{ex}'
    rep.paths = 1
    return rep
