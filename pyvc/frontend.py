"""Front end: /repo/ECAgent/*.py -> class table + function ASTs (re-read on every run).

What is dropped (DESIGN 3.2): docstrings, comments, annotations, @deprecated aliases (kept in the
table, flagged `deprecated`), f-string texts (handled by the engine).
"""
import ast
import hashlib
import os

REPO = os.environ.get('VERIF_REPO', '/repo')
MODULES = ['Core', 'Environments', 'Batching', 'Collectors', 'Tags', 'Decode']


class FuncInfo:
    def __init__(self, module, qualname, node, src, cls=None, kind='function', deprecated=False):
        self.module = module
        self.qualname = qualname          # e.g. 'SystemManager.add_system' or 'batch_run'
        self.node = node
        self.src = src
        self.sha = hashlib.sha256(src.encode()).hexdigest()
        self.cls = cls
        self.kind = kind                  # function | method | static | property_get | property_set
        self.deprecated = deprecated
        self.name = node.name

    @property
    def key(self):
        return f'{self.module}.{self.qualname}'

    def params(self):
        a = self.node.args
        names = [x.arg for x in a.posonlyargs + a.args]
        return names

    def __repr__(self):
        return f'<Func {self.key}>'


class ClassInfo:
    def __init__(self, module, name, node, bases, metaclass):
        self.module = module
        self.name = name
        self.node = node
        self.bases = bases                # list of names
        self.metaclass = metaclass
        self.methods = {}                 # name -> FuncInfo
        self.properties = {}              # name -> {'get': FuncInfo, 'set': FuncInfo}
        self.slots = None
        self.class_attrs = {}             # name -> ast expr (enum members etc.)

    def __repr__(self):
        return f'<Class {self.module}.{self.name}>'


def _strip_doc(body):
    if body and isinstance(body[0], ast.Expr) and isinstance(body[0].value, ast.Constant) \
            and isinstance(body[0].value.value, str):
        return body[1:] or [ast.Pass()]
    return body


def _decorators(node):
    out = []
    for d in node.decorator_list:
        if isinstance(d, ast.Name):
            out.append(d.id)
        elif isinstance(d, ast.Attribute):
            out.append(d.attr if not isinstance(d.value, ast.Name) else f'{d.value.id}.{d.attr}')
        elif isinstance(d, ast.Call):
            f = d.func
            out.append(f.id if isinstance(f, ast.Name) else getattr(f, 'attr', '?'))
    return out


class Program:
    def __init__(self, repo=None, extra_modules=()):
        self.repo = repo or REPO
        self.classes = {}     # name -> ClassInfo  (class names are unique across the package)
        self.functions = {}   # 'Module.qualname' -> FuncInfo
        self.module_funcs = {}  # module -> {name: FuncInfo}
        self.module_globals = {}  # module -> {name: ast expr}
        self.module_imports = {}  # module -> {local name: dotted origin}
        self.sources = {}
        self.file_sha = {}
        for m in list(MODULES) + list(extra_modules):
            self._load(m)

    def _load(self, m):
        path = os.path.join(self.repo, 'ECAgent', m + '.py')
        with open(path, newline='') as fh:
            src = fh.read()
        self.sources[m] = src
        self.file_sha[m] = hashlib.sha256(src.encode()).hexdigest()
        tree = ast.parse(src)
        self.module_funcs[m] = {}
        self.module_globals[m] = {}
        self.module_imports[m] = {}
        for node in tree.body:
            if isinstance(node, ast.FunctionDef):
                self._add_func(m, node, src, None)
            elif isinstance(node, ast.ClassDef):
                self._add_class(m, node, src)
            elif isinstance(node, ast.Assign) and len(node.targets) == 1 and isinstance(node.targets[0], ast.Name):
                self.module_globals[m][node.targets[0].id] = node.value
            elif isinstance(node, ast.Import):
                for a in node.names:
                    self.module_imports[m][a.asname or a.name.split('.')[0]] = a.name
            elif isinstance(node, ast.ImportFrom):
                for a in node.names:
                    self.module_imports[m][a.asname or a.name] = f'{node.module}.{a.name}'

    def _add_func(self, m, node, src, cls):
        decs = _decorators(node)
        seg = ast.get_source_segment(src, node) or ''
        node.body = _strip_doc(node.body)
        kind = 'function' if cls is None else 'method'
        if 'staticmethod' in decs:
            kind = 'static'
        if 'property' in decs:
            kind = 'property_get'
        for d in decs:
            if d.endswith('.setter'):
                kind = 'property_set'
        qual = node.name if cls is None else f'{cls.name}.{node.name}'
        fi = FuncInfo(m, qual, node, seg, cls=cls, kind=kind, deprecated='deprecated' in decs)
        if cls is None:
            self.module_funcs[m][node.name] = fi
            self.functions[fi.key] = fi
        else:
            if kind == 'property_get':
                cls.properties.setdefault(node.name, {})['get'] = fi
                self.functions[fi.key + '@get'] = fi
            elif kind == 'property_set':
                cls.properties.setdefault(node.name, {})['set'] = fi
                self.functions[fi.key + '@set'] = fi
            else:
                cls.methods[node.name] = fi
                self.functions[fi.key] = fi
        return fi

    def _add_class(self, m, node, src):
        bases = []
        for b in node.bases:
            if isinstance(b, ast.Name):
                bases.append(b.id)
            elif isinstance(b, ast.Attribute):
                bases.append(b.attr)
        meta = None
        for kw in node.keywords:
            if kw.arg == 'metaclass' and isinstance(kw.value, ast.Name):
                meta = kw.value.id
        ci = ClassInfo(m, node.name, node, bases, meta)
        self.classes[node.name] = ci
        for st in _strip_doc(node.body):
            if isinstance(st, ast.FunctionDef):
                self._add_func(m, st, src, ci)
            elif isinstance(st, ast.Assign) and len(st.targets) == 1 and isinstance(st.targets[0], ast.Name):
                name = st.targets[0].id
                if name == '__slots__':
                    try:
                        ci.slots = list(ast.literal_eval(st.value))
                    except Exception:
                        ci.slots = None
                else:
                    ci.class_attrs[name] = st.value

    # ---- class relations -------------------------------------------------------------------
    def mro(self, cname):
        """Linearisation for the single-inheritance hierarchies of the package."""
        out = []
        c = self.classes.get(cname)
        while c is not None:
            out.append(c.name)
            nxt = None
            for b in c.bases:
                if b in self.classes:
                    nxt = self.classes[b]
                    break
            c = nxt
        return out

    def is_subclass(self, a, b):
        return b in self.mro(a) or b == 'object'

    def metaclass_of(self, cname):
        for c in self.mro(cname):
            if self.classes[c].metaclass:
                return self.classes[c].metaclass
        return None

    def find_method(self, cname, mname, after=None):
        """Resolve mname along the MRO of cname; `after`: start after that class (super())."""
        mro = self.mro(cname)
        if after is not None:
            mro = mro[mro.index(after) + 1:]
        for c in mro:
            ci = self.classes[c]
            if mname in ci.methods:
                return ci.methods[mname]
        return None

    def find_property(self, cname, pname):
        for c in self.mro(cname):
            ci = self.classes[c]
            if pname in ci.properties:
                return ci.properties[pname]
        return None

    def func(self, key):
        """key: 'Core.SystemManager.add_system' | 'Batching.batch_run'."""
        if key not in self.functions:
            raise KeyError(f'function {key} not found in {self.repo} (renamed or removed?)')
        return self.functions[key]

    def all_functions(self):
        seen = set()
        for k, f in self.functions.items():
            if id(f) in seen:
                continue
            seen.add(id(f))
            yield f
