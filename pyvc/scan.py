"""Package-wide frame scans over the AST of every function in /repo/ECAgent (DESIGN 3.9).

* reads  (C07): no function of the package may draw on an ambient source of nondeterminism.
* writers: every write to a representation field lies in one of the functions allowed (= contracted) for it.
Each scanned function counts as one checked obligation; a finding is a refuted obligation without a counter-model.
"""
import ast

AMBIENT_CALLS = {
    ('random', None): 'module-level random.* function (global generator)',
    ('np', 'random'): 'numpy global generator',
    ('numpy', 'random'): 'numpy global generator',
    ('time', None): 'wall-clock time', ('datetime', None): 'wall-clock time', ('uuid', None): 'uuid',
    ('os', 'urandom'): 'OS entropy', ('os', 'environ'): 'process environment', ('os', 'getpid'): 'process id',
    ('secrets', None): 'OS entropy',
}
AMBIENT_BUILTINS = {'hash': 'hash() depends on PYTHONHASHSEED', 'id': 'id() is an address',
                    'set': 'set iteration order depends on hashing', 'frozenset': 'set iteration order depends on hashing'}
MUTATORS = {'append', 'insert', 'remove', 'clear', 'pop', 'update', 'extend', 'sort', 'reverse', 'popitem', 'setdefault',
            'drop'}


def _root(node):
    while isinstance(node, ast.Attribute):
        node = node.value
    return node.id if isinstance(node, ast.Name) else None


def scan_reads(prog, allowed_random_ctor=('Core.Model.__init__',)):
    checked, viol = 0, []
    for fi in prog.all_functions():
        checked += 1
        locals_ = {a.arg for a in fi.node.args.args + fi.node.args.kwonlyargs}
        for n in ast.walk(fi.node):
            if isinstance(n, (ast.Set, ast.SetComp)):
                viol.append(f'{fi.key}: set display / comprehension (hash order) at line {n.lineno}')
            if isinstance(n, ast.Call):
                f = n.func
                if isinstance(f, ast.Name) and f.id in AMBIENT_BUILTINS and f.id not in locals_:
                    viol.append(f'{fi.key}: {f.id}() - {AMBIENT_BUILTINS[f.id]} (line {n.lineno})')
                if isinstance(f, ast.Attribute):
                    root = _root(f)
                    chain = []
                    x = f
                    while isinstance(x, ast.Attribute):
                        chain.append(x.attr)
                        x = x.value
                    chain = list(reversed(chain))
                    if root == 'random':
                        if chain == ['Random']:
                            if not n.args and not n.keywords:
                                viol.append(f'{fi.key}: random.Random() without a seed (OS entropy) at line {n.lineno}')
                            elif fi.key not in allowed_random_ctor:
                                viol.append(f'{fi.key}: constructs its own generator at line {n.lineno}')
                        else:
                            viol.append(f'{fi.key}: random.{".".join(chain)} uses the global generator (line {n.lineno})')
                    for (r, a), why in AMBIENT_CALLS.items():
                        if root == r and r != 'random' and (a is None or (chain and chain[0] == a)):
                            viol.append(f'{fi.key}: {r}.{".".join(chain)} - {why} (line {n.lineno})')
            if isinstance(n, ast.Call) and isinstance(n.func, ast.Name) and n.func.id == 'sorted':
                for kw in n.keywords:
                    if kw.arg == 'key' and isinstance(kw.value, ast.Name) and kw.value.id in ('id', 'hash'):
                        viol.append(f'{fi.key}: sorted(key={kw.value.id}) (line {n.lineno})')
    return dict(name='scan:reads', checked=checked, violations=viol)


def _writes(fi):
    """-> set of field names written (assignment, deletion, subscript store, mutating method call) in fi."""
    out = set()
    for n in ast.walk(fi.node):
        targets = []
        if isinstance(n, ast.Assign):
            targets = n.targets
        elif isinstance(n, (ast.AugAssign, ast.AnnAssign)):
            targets = [n.target]
        elif isinstance(n, ast.Delete):
            targets = n.targets
        for t in targets:
            for x in ast.walk(t):
                if isinstance(x, ast.Attribute) and isinstance(x.ctx, (ast.Store, ast.Del)):
                    out.add(x.attr)
                if isinstance(x, ast.Subscript) and isinstance(x.ctx, (ast.Store, ast.Del)):
                    v = x.value
                    while isinstance(v, ast.Subscript):
                        v = v.value
                    if isinstance(v, ast.Attribute):
                        out.add(v.attr)
        if isinstance(n, ast.Call) and isinstance(n.func, ast.Attribute) and n.func.attr in MUTATORS:
            v = n.func.value
            while isinstance(v, ast.Subscript):
                v = v.value
            if isinstance(v, ast.Attribute):
                out.add(v.attr)
    return out


def scan_writers(prog, table):
    """table: field -> list of function keys allowed to write it."""
    checked, viol = 0, []
    for fi in prog.all_functions():
        w = _writes(fi)
        for field, allowed in table.items():
            if field in w:
                checked += 1
                key = fi.key
                if key not in allowed and not fi.deprecated:
                    viol.append(f'{key} writes representation field `{field}` but is not one of its contracted writers '
                                f'{allowed}')
    return dict(name='scan:writers', checked=max(checked, 1), violations=viol)


def run(spec, prog, reg, cid):
    if spec['kind'] == 'reads':
        return scan_reads(prog)
    if spec['kind'] == 'writers':
        return scan_writers(prog, spec['table'])
    raise ValueError(spec)
