"""Package-wide frame scans over the AST of every function in /repo/ECAgent (DESIGN 3.9).

* reads  (C07): no function of the package may draw on an ambient source of nondeterminism.
* writers: every write to a representation field lies in one of the functions allowed (= contracted) for it.
Each scanned function counts as one checked obligation; a finding is a refuted obligation without a counter-model.
"""
import ast

AMBIENT_CALLS = {
    ('random', None): 'module-level random.* function (global generator)',
    ('np', 'random'): 'numpy global generator',
    ('numpy', 'random'): 'numpy global generator',
    ('time', None): 'wall-clock time', ('datetime', None): 'wall-clock time', ('uuid', None): 'uuid',
    ('os', 'urandom'): 'OS entropy', ('os', 'environ'): 'process environment', ('os', 'getpid'): 'process id',
    ('secrets', None): 'OS entropy',
}
AMBIENT_BUILTINS = {'hash': 'hash() depends on PYTHONHASHSEED', 'id': 'id() is an address',
                    'set': 'set iteration order depends on hashing', 'frozenset': 'set iteration order depends on hashing'}
MUTATORS = {'append', 'insert', 'remove', 'clear', 'pop', 'update', 'extend', 'sort', 'reverse', 'popitem', 'setdefault',
            'drop'}


def _root(node):
    while isinstance(node, ast.Attribute):
        node = node.value
    return node.id if isinstance(node, ast.Name) else None


def scan_reads(prog, allowed_random_ctor=('Core.Model.__init__',)):
    checked, viol = 0, []
    for fi in prog.all_functions():
        checked += 1
        locals_ = {a.arg for a in fi.node.args.args + fi.node.args.kwonlyargs}
        parents = {id(ch): par for par in ast.walk(fi.node) for ch in ast.iter_child_nodes(par)}
        for n in ast.walk(fi.node):
            if isinstance(n, (ast.Set, ast.SetComp)):
                viol.append(f'{fi.key}: set display / comprehension (hash order) at line {n.lineno}')
            if isinstance(n, ast.Call):
                f = n.func
                if isinstance(f, ast.Name) and f.id in AMBIENT_BUILTINS and f.id not in locals_:
                    viol.append(f'{fi.key}: {f.id}() - {AMBIENT_BUILTINS[f.id]} (line {n.lineno})')
                if isinstance(f, ast.Attribute):
                    root = _root(f)
                    chain = []
                    x = f
                    while isinstance(x, ast.Attribute):
                        chain.append(x.attr)
                        x = x.value
                    chain = list(reversed(chain))
                    if root == 'random':
                        if chain == ['Random']:
                            if not n.args and not n.keywords:
                                viol.append(f'{fi.key}: random.Random() without a seed (OS entropy) at line {n.lineno}')
                            elif fi.key not in allowed_random_ctor:
                                viol.append(f'{fi.key}: constructs its own generator at line {n.lineno}')
                        else:
                            viol.append(f'{fi.key}: random.{".".join(chain)} uses the global generator (line {n.lineno})')
                    for (r, a), why in AMBIENT_CALLS.items():
                        if root == r and r != 'random' and (a is None or (chain and chain[0] == a)):
                            viol.append(f'{fi.key}: {r}.{".".join(chain)} - {why} (line {n.lineno})')
            if isinstance(n, ast.Name) and isinstance(n.ctx, ast.Load) and n.id == 'random' and 'random' not in locals_:
                par = parents.get(id(n))
                if not (isinstance(par, ast.Attribute) and par.value is n):
                    # the module object itself is handed around (`rng = ... else random`): its functions are the global
                    # generator
                    viol.append(f'{fi.key}: the `random` module is used as a generator object (line {n.lineno})')
            if isinstance(n, ast.Call) and isinstance(n.func, ast.Name) and n.func.id == 'sorted':
                for kw in n.keywords:
                    if kw.arg == 'key' and isinstance(kw.value, ast.Name) and kw.value.id in ('id', 'hash'):
                        viol.append(f'{fi.key}: sorted(key={kw.value.id}) (line {n.lineno})')
    return dict(name='scan:reads', checked=checked, violations=viol)


def _writes(fi):
    """-> set of field names written (assignment, deletion, subscript store, mutating method call) in fi."""
    out = set()
    for n in ast.walk(fi.node):
        targets = []
        if isinstance(n, ast.Assign):
            targets = n.targets
        elif isinstance(n, (ast.AugAssign, ast.AnnAssign)):
            targets = [n.target]
        elif isinstance(n, ast.Delete):
            targets = n.targets
        for t in targets:
            for x in ast.walk(t):
                if isinstance(x, ast.Attribute) and isinstance(x.ctx, (ast.Store, ast.Del)):
                    out.add(x.attr)
                if isinstance(x, ast.Subscript) and isinstance(x.ctx, (ast.Store, ast.Del)):
                    v = x.value
                    while isinstance(v, ast.Subscript):
                        v = v.value
                    if isinstance(v, ast.Attribute):
                        out.add(v.attr)
        if isinstance(n, ast.Call) and isinstance(n.func, ast.Attribute) and n.func.attr in MUTATORS:
            v = n.func.value
            while isinstance(v, ast.Subscript):
                v = v.value
            if isinstance(v, ast.Attribute):
                out.add(v.attr)
    return out


def scan_writers(prog, table):
    """table: field -> list of function keys allowed to write it."""
    checked, viol = 0, []
    for fi in prog.all_functions():
        w = _writes(fi)
        for field, allowed in table.items():
            if field in w:
                checked += 1
                key = fi.key
                if key not in allowed and not fi.deprecated:
                    viol.append(f'{key} writes representation field `{field}` but is not one of its contracted writers '
                                f'{allowed}')
    return dict(name='scan:writers', checked=max(checked, 1), violations=viol)


def scan_structure(prog, reg, cid, props_table):
    """Structural obligations for the functions a property depends on:
    (a) no class of the package overrides a contracted method without carrying a contract itself,
    (b) no module-level statement re-binds attributes of package classes (monkey patching at import),
    (c) contracted functions carry only the known decorators."""
    checked, viol = 0, []
    keys = {k.split('#')[0] for k in list(props_table[cid]['functions']) + list(props_table[cid].get('deps', []))}
    contracted = {k.split('#')[0].split('@')[0] for k in reg.contracts}
    for key in sorted(keys):
        mod, _, qual = key.partition('.')
        if '.' not in qual:
            continue
        cname, mname = qual.split('.')[0], qual.split('.')[1].split('@')[0]
        checked += 1
        if mname == '__init__':
            continue          # constructors are re-defined by design; each subclass constructor has its own contract
        for d in prog.classes:
            if d != cname and prog.is_subclass(d, cname) and mname in prog.classes[d].methods:
                okey = f'{prog.classes[d].module}.{d}.{mname}'
                if okey not in contracted:
                    viol.append(f'{okey} overrides the contracted {key} without a contract of its own')
        # a redefinition between cname and the class where the contract sits is covered by the MRO lookup
    for m, src in prog.sources.items():
        tree = ast.parse(src)
        for node in tree.body:
            checked += 1
            targets = []
            if isinstance(node, ast.Assign):
                targets = node.targets
            elif isinstance(node, (ast.AugAssign, ast.AnnAssign)):
                targets = [node.target]
            for t in targets:
                if isinstance(t, (ast.Attribute, ast.Subscript)):
                    viol.append(f'{m}.py line {node.lineno}: module-level statement re-binds `{ast.unparse(t)}`')
            if isinstance(node, ast.Expr) and isinstance(node.value, ast.Call) and isinstance(node.value.func, ast.Name) \
                    and node.value.func.id in ('setattr', 'delattr'):
                viol.append(f'{m}.py line {node.lineno}: module-level {node.value.func.id}(...)')
    # (d) a class-body binding built from a method of the same class (`alias = wrap(method)`) calls that very function:
    #     it does not dispatch to a subclass override, so objects of the overriding class get a second, uncontracted
    #     entry point that skips the override.
    for cname, ci in prog.classes.items():
        for node in ci.node.body:
            if not isinstance(node, (ast.Assign, ast.AnnAssign)) or getattr(node, 'value', None) is None:
                continue
            checked += 1
            for x in ast.walk(node.value):
                if isinstance(x, ast.Name) and x.id in ci.methods:
                    for d in prog.classes:
                        if d != cname and prog.is_subclass(d, cname) and x.id in prog.classes[d].methods:
                            tg = ', '.join(ast.unparse(t) for t in (node.targets if isinstance(node, ast.Assign)
                                                                    else [node.target]))
                            viol.append(f'{ci.module}.{cname}: class-body binding `{tg}` captures {cname}.{x.id} statically; '
                                        f'{d} overrides {x.id}, so {d}().{tg}(...) bypasses the override')
    known = {'property', 'staticmethod', 'classmethod', 'deprecated'}
    for key in sorted(keys):
        try:
            fi = prog.func(key)
        except KeyError:
            continue
        checked += 1
        for d in fi.node.decorator_list:
            name = d.id if isinstance(d, ast.Name) else (d.attr if isinstance(d, ast.Attribute) else
                                                         (d.func.id if isinstance(d, ast.Call) and isinstance(d.func, ast.Name) else '?'))
            if name not in known and name != 'setter':
                viol.append(f'{key}: decorator @{name} changes what a call of this function executes')
    return dict(name='scan:structure', checked=checked, violations=viol)


def scan_defaults(prog, table, cid):
    """Property-relevant default arguments (e.g. collectors default to priority -1 < 0)."""
    checked, viol = 0, []
    for (key, param), (expected, props) in table.items():
        if cid not in props:
            continue
        checked += 1
        try:
            fi = prog.func(key)
        except KeyError as ex:
            viol.append(str(ex))
            continue
        a = fi.node.args
        names = [x.arg for x in a.posonlyargs + a.args]
        defaults = dict(zip(names[len(names) - len(a.defaults):], a.defaults))
        for p_, d_ in zip(a.kwonlyargs, a.kw_defaults):
            if d_ is not None:
                defaults[p_.arg] = d_
        if param not in defaults:
            viol.append(f'{key}: parameter {param} has no default (expected {expected})')
        elif ast.unparse(defaults[param]) != expected:
            viol.append(f'{key}: default of {param} is {ast.unparse(defaults[param])}, the property relies on {expected}')
    return dict(name='scan:defaults', checked=max(checked, 1), violations=viol)


def _load_pinned():
    import json
    import os
    root = os.path.dirname(os.path.dirname(os.path.abspath(__file__)))
    return json.load(open(os.path.join(root, 'contracts', 'interface.json')))


def _current_interface(prog):
    import importlib.util
    import os
    root = os.path.dirname(os.path.dirname(os.path.abspath(__file__)))
    spec = importlib.util.spec_from_file_location('verif_pin_interface', os.path.join(root, 'tools', 'pin_interface.py'))
    mod = importlib.util.module_from_spec(spec)
    spec.loader.exec_module(mod)
    return mod.build(prog.repo)


def _aliases_of(prog, keys):
    """Deprecated public aliases of the plan's functions: functions decorated @deprecated whose body calls a plan
    function of the same class / module."""
    out = {}
    names = {}
    for k in keys:
        parts = k.split('.')
        names.setdefault((parts[0], parts[1] if len(parts) == 3 else None), {})[parts[-1].split('@')[0]] = k
    for fi in prog.all_functions():
        if not fi.deprecated:
            continue
        scope = (fi.module, fi.cls.name if fi.cls else None)
        cands = dict(names.get(scope, {}))
        if fi.cls is not None:
            for c in prog.mro(fi.cls.name):
                cands.update(names.get((prog.classes[c].module, c), {}) if c in prog.classes else {})
        for n in ast.walk(fi.node):
            if isinstance(n, ast.Call):
                nm = n.func.attr if isinstance(n.func, ast.Attribute) else (n.func.id if isinstance(n.func, ast.Name) else None)
                if nm in cands:
                    out[fi.key] = cands[nm]
    return out


def scan_interface(prog, reg, cid, props_table):
    """The declared interface the contracts were written against (contracts/interface.json, pinned from the source by
    tools/pin_interface.py) still holds for the functions of this property's plan and for their deprecated aliases:
      signature: the pinned parameters are a prefix of the current ones - same names, same order, same kinds, same
                 default expressions (new trailing parameters with defaults are fine): positional callers bind the same;
      decorators: unchanged set;
      imports: every name a plan module imports still comes from the same origin and is not re-bound at module level;
      aliases: a deprecated alias is a plain forwarding call of the function it stands for, arguments in order,
               on the same receiver."""
    pinned = _load_pinned()
    cur = _current_interface(prog)
    checked, viol = 0, []
    keys = sorted({k.split('#')[0] for k in list(props_table[cid]['functions']) + list(props_table[cid].get('deps', []))})
    aliases = _aliases_of(prog, keys)
    for key in keys + sorted(aliases):
        pk = key.replace('@get', '').replace('@set', '@set')
        if pk not in pinned['functions']:
            continue
        checked += 1
        if pk not in cur['functions']:
            viol.append(f'{key}: the function is gone')
            continue
        was, now = pinned['functions'][pk], cur['functions'][pk]
        if now['params'][:len(was['params'])] != was['params'] or any(p[2] is None and p[1] in ('pos', 'kwonly')
                                                                      for p in now['params'][len(was['params']):]):
            viol.append(f'{key}: signature changed from ({", ".join(_fmt(p) for p in was["params"])}) to '
                        f'({", ".join(_fmt(p) for p in now["params"])}) - callers written against the documented order '
                        f'bind their arguments differently')
        if sorted(now['decorators']) != sorted(was['decorators']):
            viol.append(f'{key}: decorators changed from {was["decorators"]} to {now["decorators"]}')
    for m in sorted({k.split('.')[0] for k in keys}):
        for name, origin in pinned['imports'].get(m, {}).items():
            checked += 1
            if cur['imports'].get(m, {}).get(name) != origin:
                viol.append(f'{m}.py: `{name}` was imported from {origin}, now '
                            f'{cur["imports"].get(m, {}).get(name, "not imported (defined locally?)")}')
            if name in cur['module_assigned'].get(m, []) or f'{m}.{name}' in cur['functions']:
                viol.append(f'{m}.py: the imported name `{name}` ({origin}) is re-bound at module level')
    for akey, target in sorted(aliases.items()):
        checked += 1
        fi = prog.func(akey)
        body = [st for st in fi.node.body if not (isinstance(st, ast.Expr) and isinstance(st.value, ast.Constant))]
        ok = False
        if len(body) == 1 and isinstance(body[0], (ast.Return, ast.Expr)) and isinstance(body[0].value, ast.Call):
            call = body[0].value
            pnames = [a.arg for a in fi.node.args.args]
            recv_ok = True
            if fi.cls is not None:
                recv_ok = isinstance(call.func, ast.Attribute) and isinstance(call.func.value, ast.Name) \
                    and call.func.value.id == pnames[0]
                pnames = pnames[1:]
            tparams = [p[0] for p in cur['functions'].get(target.replace('@get', ''), {}).get('params', [])]
            if fi.cls is not None:
                tparams = tparams[1:]
            args = [a.id if isinstance(a, ast.Name) else (f'*{a.value.id}' if isinstance(a, ast.Starred) and isinstance(a.value, ast.Name) else None)
                    for a in call.args]
            kws = {k.arg: (k.value.id if isinstance(k.value, ast.Name) else None) for k in call.keywords}
            bound = dict(zip(tparams, args))
            bound.update(kws)
            want = [n for n in pnames]
            if fi.node.args.vararg is not None:
                want.append('*' + fi.node.args.vararg.arg)
            ok = recv_ok and None not in args and None not in kws.values() \
                and [bound.get(t) for t in tparams[:len(want)]] == [w for w in want][:len(tparams)] \
                and len(args) + len(kws) == len(want) and all(bound.get(t) == t or bound.get(t, '').startswith('*')
                                                              for t in tparams[:len(want)])
        if not ok:
            viol.append(f'{akey}: the deprecated alias is no longer a plain forwarding call of {target} (same receiver, '
                        f'same arguments in the same order)')
    return dict(name='scan:interface', checked=max(checked, 1), violations=viol)


_MUTABLE_CTORS = {'dict', 'list', 'set', 'defaultdict', 'OrderedDict', 'deque', 'Counter', 'WeakValueDictionary',
                  'WeakKeyDictionary', 'bytearray'}
_CACHE_DECOS = {'lru_cache', 'cache', 'cached_property'}
PINNED_SHARED = {('Tags', '_module_library')}     # the documented process-wide tag library (C19's subject)


def _mutable_value(v):
    if isinstance(v, (ast.Dict, ast.List, ast.Set, ast.DictComp, ast.ListComp, ast.SetComp)):
        return True
    if isinstance(v, ast.Call):
        f = v.func
        name = f.id if isinstance(f, ast.Name) else (f.attr if isinstance(f, ast.Attribute) else None)
        return name in _MUTABLE_CTORS
    return False


def scan_shared_state(prog):
    """Process-wide mutable state: a module-level or class-level name bound to a mutable container (or a memoising
    decorator) that code inside a function refers to.  The proofs treat the heap of one model as the only thing a
    call can read or write; state shared by all models of a process is outside that argument.  Such state is not a
    violation by itself (a cache that copies on the way in and out is harmless), so it is reported as *unproved*:
    the run is DEGRADED and the native layer (same-process re-runs, interleaved models) stands in."""
    found, checked = [], 0
    for m, src in prog.sources.items():
        tree = ast.parse(src)
        shared = {}          # name -> (where, lineno)
        for node in tree.body:
            tv = []
            if isinstance(node, ast.Assign):
                tv = [(t, node.value) for t in node.targets]
            elif isinstance(node, ast.AnnAssign) and node.value is not None:
                tv = [(node.target, node.value)]
            for t, v in tv:
                if isinstance(t, ast.Name) and _mutable_value(v) and not t.id.startswith('__'):
                    shared[t.id] = (f'{m}.{t.id}', node.lineno, 'module')
            if isinstance(node, ast.ClassDef):
                for sub in node.body:
                    tv = []
                    if isinstance(sub, ast.Assign):
                        tv = [(t, sub.value) for t in sub.targets]
                    elif isinstance(sub, ast.AnnAssign) and sub.value is not None:
                        tv = [(sub.target, sub.value)]
                    for t, v in tv:
                        if isinstance(t, ast.Name) and _mutable_value(v) and not t.id.startswith('__'):
                            shared[t.id] = (f'{m}.{node.name}.{t.id}', sub.lineno, 'class')
        funcs = [n for n in ast.walk(tree) if isinstance(n, (ast.FunctionDef, ast.AsyncFunctionDef, ast.Lambda))]
        for fn in funcs:
            checked += 1
            for d in getattr(fn, 'decorator_list', []):
                dn = d.func if isinstance(d, ast.Call) else d
                name = dn.id if isinstance(dn, ast.Name) else (dn.attr if isinstance(dn, ast.Attribute) else None)
                if name in _CACHE_DECOS:
                    found.append(f'{m}.{fn.name}: memoising decorator @{name} (line {fn.lineno}): results are shared by '
                                 f'every caller in the process')
        used = set()
        for fn in funcs:
            for n in ast.walk(fn):
                if isinstance(n, ast.Name) and n.id in shared and shared[n.id][2] == 'module':
                    used.add(n.id)
                if isinstance(n, ast.Attribute) and n.attr in shared and shared[n.attr][2] == 'class':
                    used.add(n.attr)
        for name in sorted(used):
            where, line, kind = shared[name]
            if (m, name) in PINNED_SHARED:
                continue
            found.append(f'{where}: {kind}-level mutable object (line {line}) used inside functions: state shared by every '
                         f'model in the process')
    return dict(name='scan:shared-state', checked=checked, violations=[], unproved=found)


def _fmt(p):
    return ('*' if p[1] == 'var' else '**' if p[1] == 'kwvar' else '') + p[0] + (f'={p[2]}' if p[2] is not None else '')


def run(spec, prog, reg, cid):
    if spec['kind'] == 'interface':
        from contracts.props import PROPS
        return scan_interface(prog, reg, cid, PROPS)
    if spec['kind'] == 'structure':
        from contracts.props import PROPS
        return scan_structure(prog, reg, cid, PROPS)
    if spec['kind'] == 'defaults':
        return scan_defaults(prog, spec['table'], cid)
    if spec['kind'] == 'reads':
        return scan_reads(prog)
    if spec['kind'] == 'shared-state':
        return scan_shared_state(prog)
    if spec['kind'] == 'writers':
        return scan_writers(prog, spec['table'])
    raise ValueError(spec)
