"""Statement execution (mixin): path forking by re-execution, loops with invariants, exceptions."""
import ast
import z3
from . import types as ty
from .values import (I, B, V, VInt, VBool, VNum, VStr, VCls, VNone, VRef, VTuple, VFunc, VRange, VView,
                     VModule, VOld, VExc, VGhost, Unsupported)
from .heap import PyRaise, PathEnd
from .calls import _Return, Frame


class _Break(Exception):
    pass


class _Continue(Exception):
    pass


def assigned_names(stmts):
    out = set()
    for st in stmts:
        for n in ast.walk(st):
            if isinstance(n, ast.Name) and isinstance(n.ctx, (ast.Store, ast.Del)):
                out.add(n.id)
    return out


class StmtMixin:
    # ------------------------------------------------------------------ decisions
    def choose(self, n):
        if n == 1:
            return 0
        if self.pos < len(self.script):
            c = self.script[self.pos][0]
        else:
            c = 0
            self.script.append((0, n))
        self.pos += 1
        return c

    def branch(self, cond):
        c = z3.simplify(cond)
        if z3.is_true(c):
            return True
        if z3.is_false(c):
            return False
        k = self.choose(2)
        t = cond if k == 0 else z3.Not(cond)
        self.pc.append(t)
        self.dec_ids.add(t.get_id())
        self.prune()
        return k == 0

    def prune(self):
        if not self.pruning:
            return
        # 1. quantifier-free part only (fast, decides most branch conditions)  2. everything, short budget
        qf = [t for t in list(self.facts) + list(self.pc) if not self._has_quant(t)]
        s = z3.Solver()
        s.set('timeout', self.prune_ms)
        s.add(*qf)
        if s.check() == z3.unsat:
            raise PathEnd()
        s = z3.Solver()
        s.set('timeout', 200)
        s.add(*self.facts)
        s.add(*self.pc)
        if s.check() == z3.unsat:
            raise PathEnd()

    def _has_quant(self, t):
        i = t.get_id()
        c = self._quant_cache.get(i)
        if c is None:
            stack, c = [t], False
            seen = set()
            while stack and not c:
                x = stack.pop()
                if x.get_id() in seen:
                    continue
                seen.add(x.get_id())
                if z3.is_quantifier(x):
                    c = True
                elif z3.is_app(x):
                    stack.extend(x.children())
            self._quant_cache[i] = c
        return c

    # ------------------------------------------------------------------ blocks
    def exec_block(self, stmts):
        for st in stmts:
            m = getattr(self, 's_' + type(st).__name__, None)
            if m is None:
                raise Unsupported(f'statement {type(st).__name__}')
            m(st)

    def s_Pass(self, st):
        pass

    def s_Expr(self, st):
        if isinstance(st.value, ast.Constant):
            return
        self.eval(st.value)

    def s_Return(self, st):
        raise _Return(self.eval(st.value) if st.value is not None else VNone())

    def s_Raise(self, st):
        if st.exc is None:
            raise Unsupported('bare raise')
        v = self.eval(st.exc)
        if isinstance(v, VFunc) and v.kind in ('excclass', 'class'):
            v = VExc(v.name)
        if not isinstance(v, VExc):
            raise Unsupported('raise of non-exception value')
        raise PyRaise(v.cls)

    def s_If(self, st):
        c = self.truth(self.eval(st.test))
        if self.branch(c):
            self.exec_block(st.body)
        else:
            self.exec_block(st.orelse)

    def s_Assign(self, st):
        self._expect = self.local_type_hint(st)
        try:
            v = self.eval(st.value)
        finally:
            self._expect = None
        hint = None
        if len(st.targets) == 1 and isinstance(st.targets[0], ast.Name):
            t = self.cur_local_types().get(st.targets[0].id)
            hint = ty.parse(t) if t else None
        if isinstance(hint, ty.TRef) and isinstance(v, VRef) and v.typ == ty.ANY:
            v = VRef(v.term, hint, v.st)       # sidecar local type: the opaque value is an instance of that class
        for tgt in st.targets:
            self.assign(tgt, v)
        # `x = []`: remember the fresh, empty, unaliased accumulator (until the name is read): an accumulation loop over
        # it is then the comprehension it spells out (same law, element type from the appended value)
        if len(st.targets) == 1 and isinstance(st.targets[0], ast.Name) and isinstance(st.value, ast.List) \
                and not st.value.elts and isinstance(v, VRef) and not self.spec_mode and self.frame is not None:
            self.fresh_acc[(id(self.frame), st.targets[0].id)] = (v.term.get_id(), hint)

    def s_AnnAssign(self, st):
        if st.value is not None:
            self.assign(st.target, self.eval(st.value))

    def s_AugAssign(self, st):
        cur = self.eval(self._as_load(st.target))
        rhs = self.eval(st.value)
        fake = ast.BinOp(left=ast.Constant(0), op=st.op, right=ast.Constant(0))
        x, y = self.arith_pair(cur, rhs)
        if isinstance(st.op, ast.Add):
            v = self.mk_num(x + y, cur, rhs)
        elif isinstance(st.op, ast.Sub):
            v = self.mk_num(x - y, cur, rhs)
        elif isinstance(st.op, ast.Mult):
            v = self.mk_num(x * y, cur, rhs)
        else:
            raise Unsupported('augmented assignment operator')
        self.assign(st.target, v)

    def _as_load(self, t):
        import copy
        n = copy.deepcopy(t)
        for x in ast.walk(n):
            if hasattr(x, 'ctx'):
                x.ctx = ast.Load()
        return n

    def assign(self, tgt, v):
        if isinstance(tgt, ast.Name):
            self.frame.locals[tgt.id] = v
        elif isinstance(tgt, (ast.Tuple, ast.List)):
            if not isinstance(v, VTuple) or len(v.items) != len(tgt.elts):
                raise Unsupported('tuple unpacking of non-tuple')
            for t, x in zip(tgt.elts, v.items):
                self.assign(t, x)
        elif isinstance(tgt, ast.Attribute):
            obj = self.eval(tgt.value)
            self.setattr(obj, tgt.attr, v)
        elif isinstance(tgt, ast.Subscript):
            obj = self.eval(tgt.value)
            idx = self.eval(tgt.slice)
            self.setitem(obj, idx, v)
        else:
            raise Unsupported('assignment target')

    def setattr(self, obj, name, v):
        if isinstance(obj, VFunc) and obj.kind == 'class':
            meta = self.prog.metaclass_of(obj.name)
            pr = self.prog.find_property(meta, name) if meta else None
            if pr is not None and 'set' in pr:
                self.call_function(pr['set'], [self.class_ref(obj), v], {})
                return
            obj = self.class_ref(obj)
        if not (isinstance(obj, VRef) and isinstance(obj.typ, ty.TRef)):
            raise Unsupported(f'attribute store on {type(obj).__name__}')
        if obj.nullable:
            self.oblige_safe('AttributeError', obj.term != 0, f'none.{name}=')
        hook = self.setattr_hooks.get((obj.typ.cls, name)) or self.setattr_hooks.get((obj.typ.cls, '*'))
        if hook is not None and hook(self, obj, name, v):
            return
        cname = obj.typ.cls
        pr = self.prog.find_property(cname, name) if cname in self.prog.classes else None
        if pr is not None and 'set' in pr:
            self.call_function(pr['set'], [obj, v], {})
            return
        ft = self.field_type(cname, name)
        if ft is None:
            if cname not in self.prog.classes:
                raise Unsupported(f'store to {cname}.{name} (no sidecar field type)')
            self.reg.fields[(cname, name)] = 'any'       # undeclared attribute: an opaque field
            self.reg.auto_fields.add(name)
        self.write_field(obj, name, v)

    def setitem(self, obj, idx, v):
        if isinstance(obj, VRef) and isinstance(obj.typ, ty.TDict):
            self.dict_set(obj, idx, v)
            return
        if isinstance(obj, VRef) and isinstance(obj.typ, ty.TList):
            i = self.arith_term(idx)
            n = self.llen(obj)
            self.oblige_safe('IndexError', z3.And(i >= 0, i < n), 'list-store')
            terms = self.to_terms(v, obj.typ.elem)
            arrs = [z3.Store(a, i, x) for a, x in zip(self.lel_arrays(obj), terms)]
            self.list_set_all(obj, n, arrs)
            return
        if isinstance(obj, VRef) and isinstance(obj.typ, ty.TRef):
            h = self.builtin_hooks.get(f'{obj.typ.cls}.__setitem__')
            if h is not None:
                h(self, [obj, idx, v], {}, None)
                return
            self.external_call(f'{obj.typ.cls}.__setitem__', obj, [idx, v], {})
            return
        if isinstance(obj, VRef) and obj.typ == ty.ANY:
            self.external_call('any.__setitem__', obj, [idx, v], {})
            return
        raise Unsupported('subscript store')

    def s_Delete(self, st):
        for t in st.targets:
            if isinstance(t, ast.Subscript):
                obj = self.eval(t.value)
                idx = self.eval(t.slice)
                if isinstance(obj, VRef) and isinstance(obj.typ, ty.TDict):
                    self.oblige_safe('KeyError', self.dict_has(obj, idx), 'del-key')
                    self.dict_del(obj, idx)
                    continue
            raise Unsupported('del target')

    def s_FunctionDef(self, st):
        self.frame.locals[st.name] = VFunc('closure', fi_node=st, module=self.frame.module, env=self.frame,
                                           name=st.name)

    def s_Break(self, st):
        raise _Break()

    def s_Continue(self, st):
        raise _Continue()

    def s_Assert(self, st):
        c = self.truth(self.eval(st.test))
        self.oblige('assert', c, kind='safe')
        self.assume(c)

    def s_Try(self, st):
        if st.finalbody or st.orelse:
            raise Unsupported('try/finally or try/else')
        try:
            self.exec_block(st.body)
        except PyRaise as ex:
            for h in st.handlers:
                names = []
                if h.type is None:
                    names = None
                elif isinstance(h.type, ast.Name):
                    names = [h.type.id]
                elif isinstance(h.type, ast.Tuple):
                    names = [x.id for x in h.type.elts]
                if names is None or any(self.exc_matches(ex.cls, n) for n in names):
                    self.exec_block(h.body)
                    return
            raise

    def exc_matches(self, cls, handler):
        if cls == handler or handler in ('Exception', 'BaseException'):
            return True
        if cls in self.prog.classes:
            return self.prog.is_subclass(cls, handler)
        if handler == 'LookupError' and cls in ('KeyError', 'IndexError'):
            return True
        return False

    def s_With(self, st):
        if len(st.items) != 1:
            raise Unsupported('with: several items')
        it = st.items[0]
        v = self.eval(it.context_expr)
        h = self.with_hooks.get(getattr(v, 'ext_kind', None))
        if h is None:
            raise Unsupported('with over this context manager')
        h(self, v, it, st)

    # ------------------------------------------------------------------ loops
    def s_While(self, st):
        if st.orelse:
            raise Unsupported('while/else')
        ordn = self.loop_ordinal(st)
        self.loop(st, ordn, kind='while')

    def s_For(self, st):
        if st.orelse:
            raise Unsupported('for/else')
        ordn = self.loop_ordinal(st)
        it = self.eval(st.iter)
        self.loop(st, ordn, kind='for', it=it)

    def loop_ordinal(self, st):
        """Ordinal of a loop statement among the loops of its function, in source order."""
        fi = self.frame.fi
        if fi is None:
            return self.next_loop_ord()
        cache = getattr(fi, '_loop_ords', None)
        if cache is None:
            cache = {}

            def visit(node):
                for child in ast.iter_child_nodes(node):
                    if isinstance(child, (ast.FunctionDef, ast.Lambda, ast.ListComp, ast.GeneratorExp, ast.DictComp,
                                          ast.SetComp)):
                        continue
                    if isinstance(child, (ast.For, ast.While)):
                        cache[id(child)] = len(cache)
                    visit(child)
            visit(fi.node)
            fi._loop_ords = cache
        if id(st) not in cache:
            return self.next_loop_ord()
        return cache[id(st)]

    def next_loop_ord(self):
        fr = self.frame
        k = fr.loop_ord
        fr.loop_ord += 1
        return k

    def iter_model(self, it):
        """-> dict(start, n(), elem(i), live) describing iteration over `it`."""
        if isinstance(it, VRange):
            return dict(start=it.lo, n=lambda: it.hi, elem=lambda i: VInt(i), direct=True)
        if isinstance(it, VRef) and isinstance(it.typ, ty.TList):
            # CPython list iterator: index into the *live* list
            return dict(start=z3.IntVal(0), n=lambda: self.llen(it), elem=lambda i: self.list_get_typed(it, i))
        if isinstance(it, VTuple):
            return None
        if isinstance(it, VView) and it.kind == 'enumerate':
            inner = self.iter_model(it.ref)
            if inner is None:
                raise Unsupported('enumerate of this iterable')
            return dict(start=inner['start'], n=inner['n'],
                        elem=lambda i: VTuple([VInt(i - inner['start']), inner['elem'](i)]))
        if isinstance(it, VView) and it.kind in ('keys', 'items', 'values') or \
                (isinstance(it, VRef) and isinstance(it.typ, ty.TDict)):
            ref = it.ref if isinstance(it, VView) else it
            kind = it.kind if isinstance(it, VView) else 'keys'
            # snapshot semantics: mutation of the dict during iteration raises RuntimeError in CPython;
            # the enumeration is taken at loop entry and the body is required not to resize the dict.
            n, key_at, pos_of = self.dict_enum(ref)
            st0 = self.S

            def elem(i):
                kv = self.from_terms([key_at(i)], ref.typ.k, ref.st)
                if kind == 'keys':
                    return kv
                r0 = VRef(ref.term, ref.typ, ref.st or st0)
                val = self.dict_get(r0, kv)
                return val if kind == 'values' else VTuple([kv, val])
            return dict(start=z3.IntVal(0), n=lambda: n, elem=elem, dictref=ref)
        if isinstance(it, VRef) and it.typ == ty.ANY:
            # iterator protocol on an opaque value (assumed): TypeError iff not iterable, else its items in order
            fi = z3.Function('iterable', I, B)
            fitems = z3.Function('items_of', I, I)
            self.used_assumption('iter(x) on an opaque value raises TypeError at once iff x is not iterable; a '
                                 're-iterable collection yields the same items each time (items_of)')
            if not self.branch(fi(it.term)):
                raise PyRaise('TypeError')
            lst = VRef(fitems(it.term), ty.parse('list[any]'), it.st)
            self.fact(z3.And(lst.term > 0, lst.term < self.arr('alloc')))
            return self.iter_model(lst)
        h = self.iter_hooks.get(getattr(it, 'ext_kind', None))
        if h is not None:
            return h(self, it)
        raise Unsupported(f'iteration over {type(it).__name__}')

    def loop(self, st, ordn, kind, it=None):
        fi = self.frame.fi
        spec = self.loop_spec(fi, ordn)
        if kind == 'for' and isinstance(it, VTuple):
            for x in it.items:
                self.assign(st.target, x)
                try:
                    self.exec_block(st.body)
                except _Break:
                    break
                except _Continue:
                    continue
            return
        im = self.iter_model(it) if kind == 'for' else None
        if kind == 'for' and spec is None and self.try_accumulate(st, im):
            return
        if spec is None:
            raise Unsupported(f'loop #{ordn} of {fi.key if fi else "?"} has no invariant in the sidecar')
        idx_name = spec.get('index', '$i%d' % ordn)
        fr = self.frame
        if kind == 'for' and spec.get('iter_name'):
            fr.locals[spec['iter_name']] = it
        fname = fi.qualname if fi else '?'
        # ---- entry: invariant holds initially
        if kind == 'for':
            fr.locals[idx_name] = VInt(im['start'])
        entry_state = self.S.copy()
        self.check_invariant(spec, fname, ordn, 'inv-init', entry_state)
        # ---- arbitrary iteration: havoc
        self.havoc_loop(st, spec, entry_state)
        if kind == 'for':
            i = self.fresh('i')
            self.assume(i >= im['start'])
            fr.locals[idx_name] = VInt(i)
        self.assume_invariant(spec, entry_state)
        if kind == 'for':
            cond = i < im['n']()
        else:
            cond = self.truth(self.eval(st.test))
        if self.branch(cond):
            if kind == 'for':
                self.assign(st.target, im['elem'](i))
            try:
                self.exec_block(st.body)
            except _Break:
                return
            except _Continue:
                pass
            if kind == 'for':
                fr.locals[idx_name] = VInt(i + 1)
            self.check_invariant(spec, fname, ordn, 'inv-step', entry_state)
            raise PathEnd()
        # exit path: continue after the loop
        return

    # ------------------------------------------------------------------ accumulation loops / comprehensions
    def try_accumulate(self, st, im):
        """L2: `for` nest whose only effect is acc.append(e) under pure conditions -> enumeration law."""
        nest = []
        cur = st
        while True:
            nest.append(cur)
            if len(cur.body) == 1 and isinstance(cur.body[0], ast.For) and not cur.body[0].orelse:
                cur = cur.body[0]
            else:
                break
        body = cur.body
        acc = self.accumulator_of(body)
        if acc is None:
            return False
        accv = self.frame.locals.get(acc)
        if not (isinstance(accv, VRef) and isinstance(accv.typ, ty.TList)):
            return False
        inner_loops = any(isinstance(nd, (ast.For, ast.While)) for nd in ast.walk(ast.Module(body=body, type_ignores=[])))
        for nd in ast.walk(ast.Module(body=body, type_ignores=[])):
            if isinstance(nd, (ast.Break, ast.Return, ast.While)):
                return False
            if isinstance(nd, ast.Continue) and inner_loops:
                return False
        gens = [(n.target, n.iter) for n in nest]
        appended = []
        fresh = self.fresh_acc.pop((id(self.frame), acc), None)
        as_comprehension = fresh is not None and fresh[0] == accv.term.get_id() \
            and z3.is_int_value(z3.simplify(self.llen(accv))) and z3.simplify(self.llen(accv)).as_long() == 0

        def body_fn():
            appended.clear()
            self._acc_capture = (acc, appended)
            try:
                self.exec_block(body)
            except _Continue:
                pass            # `continue` in the innermost body: this iteration contributes what it appended so far
            finally:
                self._acc_capture = None
            if len(appended) > 1:
                raise Unsupported('accumulation loop appends more than once per iteration')
            if appended:
                return VTuple([VBool(True), appended[0]])
            return VTuple([VBool(False), None])
        if as_comprehension:
            hint = fresh[1] if isinstance(fresh[1], ty.TList) else None
            R = self.enumeration_law(gens, body_fn, None, first_iter=im, extend=False, result_type=hint)
            self.frame.locals[acc] = R
            return True
        self.enumeration_law(gens, body_fn, accv, first_iter=im, extend=True)
        return True

    def accumulator_of(self, body):
        names = set()
        for nd in ast.walk(ast.Module(body=body, type_ignores=[])):
            if isinstance(nd, ast.Call) and isinstance(nd.func, ast.Attribute) and nd.func.attr == 'append' \
                    and isinstance(nd.func.value, ast.Name):
                names.add(nd.func.value.id)
        if len(names) != 1:
            return None
        acc = names.pop()
        # the body may only assign plain locals besides appending
        for nd in ast.walk(ast.Module(body=body, type_ignores=[])):
            if isinstance(nd, (ast.Attribute, ast.Subscript)) and isinstance(nd.ctx, (ast.Store, ast.Del)):
                return None
        return acc

    def e_ListComp(self, e):
        t = self.expect_type(e)
        if not isinstance(t, ty.TList):
            t = None
        self._expect = None
        gens = []
        for g in e.generators:
            if g.is_async:
                raise Unsupported('async comprehension')
            gens.append((g.target, g.iter, g.ifs))

        def body_fn():
            return VTuple([VBool(True), self.eval(e.elt)])
        # the outermost iterable is evaluated in forking mode: iterating a non-iterable raises TypeError
        it0 = self.eval(gens[0][1])
        im0 = self.iter_model(it0)
        if im0 is None:
            raise Unsupported('comprehension over a tuple')
        return self.enumeration_law([(a, b) for a, b, _ in gens], body_fn, None, ifs=[c for _, _, c in gens],
                                    result_type=t, first_iter=im0)

    def e_GeneratorExp(self, e):
        if self.spec_mode:
            raise Unsupported('generator expression outside all()/any()')
        return self.e_ListComp(e)

    def enumeration_law(self, gens, body_fn, accv, first_iter=None, ifs=None, extend=False, result_type=None):
        """Characterise R = [f(x..) for x.. in nest if p(x..)] by an order isomorphism (DESIGN 3.4).

        gens: list of (target, iter expr); body_fn() -> VTuple([VBool cond, value]) evaluated purely under bound
        loop variables.  With `extend`, R = old(acc) ++ new elements.
        """
        fr = self.frame
        m = len(gens)
        self.ctx.n += 1
        tag = self.ctx.n
        pos = z3.Int(f'p!{tag}')                      # bound result index
        srcs = [z3.Function(f'src{k}!{tag}', I, I) for k in range(m)]
        dst = z3.Function(f'dst!{tag}', *([I] * m), I)
        saved_locals = dict(fr.locals)
        # --- evaluate the nest under bound index variables
        bvars = [z3.Int(f'it{k}!{tag}') for k in range(m)]
        guards = []
        n0 = len(self.pc)
        save_q = self.qguards
        save_qv = self.qvars
        self._range_bounds = []
        try:
            for k, (target, iter_e) in enumerate(gens):
                if k == 0 and first_iter is not None:
                    im = first_iter
                    self._last_im = im
                else:
                    itv = self.eval_pure(lambda ie=iter_e: self.eval(ie))
                    im = self.iter_model(itv)
                    if im is None:
                        raise Unsupported('comprehension over a tuple')
                    if k == 0:
                        self._last_im = im
                g = z3.And(bvars[k] >= im['start'], bvars[k] < im['n']())
                rb = (im['start'], im['n']()) if im.get('direct') else None
                if rb is not None and any(self.mentions(t_, bvars) for t_ in rb):
                    rb = None
                self._range_bounds.append(rb)
                guards.append(g)
                self.pc.append(g)
                self.qguards = list(self.qguards) + [g]
                self.qvars = list(self.qvars) + [bvars[k]]
                elem = self.eval_pure(lambda im=im, k=k: im['elem'](bvars[k]))
                self.assign(target, elem)
                for c in (ifs[k] if ifs else []):
                    ct = self.truth(self.eval_pure(lambda c=c: self.eval(c)))
                    guards.append(ct)
                    self.pc.append(ct)
                    self.qguards = list(self.qguards) + [ct]
            paths = self.eval_pure(body_fn, raw=True)
        finally:
            self.pc = self.pc[:n0]
            self.qguards = save_q
            self.qvars = save_qv
            newlocals = fr.locals
            fr.locals = saved_locals
        yes = [(z3.And(c, v.items[0].term), v.items[1]) for c, v in paths if v.items[1] is not None]
        val = self.merge(yes) if yes else None
        cond = z3.And(guards + [z3.Or([c for c, _ in yes])]) if yes else z3.BoolVal(False)
        if val is None:
            return None if extend else self.new_list(result_type or ty.TList(ty.ANY))
        # --- result list
        if extend:
            R = accv
            elem_t = R.typ.elem
            base_len = self.llen(R)
            old_arrs = self.lel_arrays(R)
        else:
            elem_t = (result_type.elem if result_type is not None else self.type_of(val))
            R = None
            base_len = z3.IntVal(0)
            old_arrs = None
        vterms = self.to_terms(val, elem_t)
        sl = ty.slots(elem_t)
        if m > 1 and len(guards) == m and z3.is_true(z3.simplify(z3.Or([c for c, _ in yes]))) and not extend \
                and all(r is not None for r in self._range_bounds) and len(self._range_bounds) == m:
            # unfiltered nest of ranges with bounds independent of the loop variables: row-major law
            lo = [r[0] for r in self._range_bounds]
            ns = []
            for (l, h) in self._range_bounds:
                d_ = h if z3.is_int_value(l) and l.as_long() == 0 else h - l
                # keep the extent term itself when it is known to be positive (matching-friendly index terms)
                chk = z3.Solver()
                chk.set('timeout', 500)
                chk.add(*self.facts)
                chk.add(*self.pc)
                chk.add(z3.Not(d_ > 0))
                nterm = d_ if chk.check() == z3.unsat else z3.If(d_ > 0, d_, z3.IntVal(0))
                if not z3.is_const(nterm):
                    # name the extent: index patterns must not contain `if` terms
                    nc = self.fresh('ext', I)
                    self.fact(nc == nterm)
                    nterm = nc
                ns.append(nterm)
            total = ns[0]
            for nk in ns[1:]:
                total = total * nk
            def rel(k):
                return bvars[k] if z3.is_int_value(lo[k]) and lo[k].as_long() == 0 else bvars[k] - lo[k]
            flat = rel(0)
            for k in range(1, m):
                flat = flat * ns[k] + rel(k)
            arrs = [self.fresh('rowmajor', z3.ArraySort(I, self.ctx.sort_of(s_))) for s_ in sl]
            inrange = z3.And([z3.And(bvars[k] >= lo[k], bvars[k] < lo[k] + ns[k]) for k in range(m)])
            for na, vt in zip(arrs, vterms):
                self.fact(z3.ForAll(bvars, z3.Implies(inrange, z3.Select(na, flat) == vt)))
            Rm = self.alloc(ty.TList(elem_t))
            self.list_set_all(Rm, total, arrs)
            self.used_assumption('row-major law for an unfiltered nest of ranges (engine semantics of nested comprehensions)')
            return Rm
        if m == 1 and len(guards) == 1 and z3.is_true(z3.simplify(z3.Or([c for c, _ in yes]))) and not extend:
            # no filter: R[i] = f(E(start + i)), len(R) = number of source elements (plain map law)
            im0 = first_iter if first_iter is not None else self._last_im
            n_src = im0['n']() - im0['start']
            cntm = z3.If(n_src > 0, n_src, z3.IntVal(0))
            arrs = [self.fresh('map', z3.ArraySort(I, self.ctx.sort_of(s_))) for s_ in sl]
            idx = z3.Int(f'm!{tag}')
            for na, vt in zip(arrs, vterms):
                self.fact(z3.ForAll([idx], z3.Implies(z3.And(0 <= idx, idx < cntm),
                                                      z3.Select(na, idx) == z3.substitute(vt, (bvars[0], im0['start'] + idx)))))
            Rm = self.alloc(ty.TList(elem_t))
            self.list_set_all(Rm, cntm, arrs)
            return Rm
        new_arrs = [self.fresh('comp', z3.ArraySort(I, self.ctx.sort_of(s))) for s in sl]
        cnt = self.fresh('cnt', I)
        self.fact(cnt >= 0)

        def subst(term, idxs):
            return z3.substitute(term, *[(bv, ix) for bv, ix in zip(bvars, idxs)])
        si = [s(pos) for s in srcs]
        body = z3.And([subst(cond, si)] + [z3.Select(na, base_len + pos) == subst(vt, si)
                                           for na, vt in zip(new_arrs, vterms)])
        self.fact(z3.ForAll([pos], z3.Implies(z3.And(0 <= pos, pos < cnt), body)))
        p2 = z3.Int(f'q!{tag}')
        lex = z3.BoolVal(False)
        for k in reversed(range(m)):
            lex = z3.Or(srcs[k](pos) < srcs[k](p2), z3.And(srcs[k](pos) == srcs[k](p2), lex))
        self.fact(z3.ForAll([pos, p2], z3.Implies(z3.And(0 <= pos, pos < p2, p2 < cnt), lex)))
        d = dst(*bvars)
        self.fact(z3.ForAll(bvars, z3.Implies(cond, z3.And([0 <= d, d < cnt] + [srcs[k](d) == bvars[k]
                                                                                for k in range(m)]))))
        self.laws.append(dict(arrs=[a.get_id() for a in new_arrs], terms=new_arrs, srcs=srcs, base=base_len, m=m))
        if extend:
            j = z3.Int('j')
            for na, oa in zip(new_arrs, old_arrs):
                self.fact(z3.ForAll([j], z3.Implies(z3.And(0 <= j, j < base_len), z3.Select(na, j) == z3.Select(oa, j))))
            self.list_set_all(R, base_len + cnt, new_arrs)
            return None
        R = self.alloc(ty.TList(elem_t))
        self.list_set_all(R, cnt, new_arrs)
        self.last_law = dict(tag=tag, srcs=srcs, dst=dst, cnt=cnt)
        return R
