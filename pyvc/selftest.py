"""./check selftest [--fast]: guards the verifier itself (DESIGN 3.11).

* tool-chain present (z3 python API, cvc5 / z3 CLIs, /venv python importing ECAgent from /repo);
* planted mutants on a scratch copy of /repo/ECAgent (outside /repo and /verif, removed afterwards): each must
  fail the expected named obligation;
* harmless edits must stay green.
"""
import os
import shutil
import subprocess
import sys
import tempfile

ROOT = os.path.dirname(os.path.dirname(os.path.abspath(__file__)))

# (name, file, old, new, function key, obligation substring expected to fail)
MUTANTS = [
    ('add_system >=', 'Core.py', 'if s.priority > self.execution_queue[i].priority:',
     'if s.priority >= self.execution_queue[i].priority:', 'Core.SystemManager.add_system', 'SM_rep'),
    ('activation t % f', 'Core.py', '(sys.start - self.timestep) % sys.frequency == 0',
     'self.timestep % sys.frequency == 0', 'Core.SystemManager.execute_systems', 'mon_due'),
    ('window end exclusive', 'Core.py', 'sys.start <= self.timestep <= sys.end', 'sys.start <= self.timestep < sys.end',
     'Core.SystemManager.execute_systems', 'exec_inv_runs'),
]
HARMLESS = [
    ('keys() dropped', 'Core.py', 'if s.id in self.systems.keys():', 'if s.id in self.systems:',
     'Core.SystemManager.add_system'),
    ('renamed local', 'Core.py', 'for sys in self.execution_queue:  # Simple execute cycle\n            if not self.model.is_running():\n                break\n            if sys.start <= self.timestep <= sys.end and (sys.start - self.timestep) % sys.frequency == 0:\n                sys.execute()',
     'for system in self.execution_queue:\n            if not self.model.is_running():\n                break\n            if system.start <= self.timestep <= system.end and (system.start - self.timestep) % system.frequency == 0:\n                system.execute()',
     'Core.SystemManager.execute_systems'),
]


def _verify(repo, key, timeout_ms=6000):
    sys.path.insert(0, ROOT)
    from pyvc.frontend import Program
    from pyvc.specs import REG
    import contracts.all     # noqa: F401
    from pyvc import verify, solve
    prog = Program(repo)
    rep = verify.verify_function(prog, REG, key)
    solve.discharge(rep.obs, timeout_ms=timeout_ms, want_model=False)
    return rep


def run(fast=False):
    ok = True
    # ---- tool chain
    try:
        import z3
        print('selftest: z3', z3.get_version_string())
    except Exception as ex:
        print('selftest: z3 python API missing', ex)
        return 1
    for tool in ('/usr/bin/cvc5', '/usr/bin/z3', '/venv/bin/python'):
        if not os.path.exists(tool):
            print('selftest: missing', tool)
            ok = False
    p = subprocess.run(['/venv/bin/python', '-c', 'import ECAgent.Core, ECAgent.Environments; print(ECAgent.Core.__file__)'],
                       capture_output=True, text=True)
    if p.returncode != 0:
        print('selftest: /venv/bin/python cannot import ECAgent:', p.stderr[-300:])
        ok = False
    else:
        print('selftest: native ECAgent at', p.stdout.strip())
    # ---- planted mutants on a scratch copy
    from pyvc import solve
    scratch = tempfile.mkdtemp(prefix='verif-selftest-')
    try:
        muts = MUTANTS[:1] if fast else MUTANTS
        harmless = HARMLESS[:1] if fast else HARMLESS
        for name, fn, old, new, key, expect in muts:
            shutil.rmtree(os.path.join(scratch, 'ECAgent'), ignore_errors=True)
            shutil.copytree('/repo/ECAgent', os.path.join(scratch, 'ECAgent'))
            path = os.path.join(scratch, 'ECAgent', fn)
            src = open(path, newline='').read()
            if old not in src:
                print(f'selftest: mutant "{name}": anchor text not found (source changed) - skipped')
                continue
            open(path, 'w', newline='').write(src.replace(old, new))
            rep = _verify(scratch, key)
            bad = [o.name for o in rep.obs if o.result != 'unsat']
            hit = [b for b in bad if expect in b]
            print(f'selftest: mutant "{name}": {len(bad)} obligations fail, expected "{expect}": {"yes" if hit else "NO"}')
            if not hit:
                ok = False
        for name, fn, old, new, key in harmless:
            shutil.rmtree(os.path.join(scratch, 'ECAgent'), ignore_errors=True)
            shutil.copytree('/repo/ECAgent', os.path.join(scratch, 'ECAgent'))
            path = os.path.join(scratch, 'ECAgent', fn)
            src = open(path, newline='').read()
            if old not in src:
                print(f'selftest: harmless edit "{name}": anchor text not found (source changed) - skipped')
                continue
            open(path, 'w', newline='').write(src.replace(old, new))
            rep = _verify(scratch, key)
            bad = [o.name for o in rep.obs if o.result != 'unsat']
            print(f'selftest: harmless edit "{name}": {len(rep.obs)} obligations, {len(bad)} fail, error={rep.error}')
            if bad or rep.error:
                ok = False
    finally:
        solve.close()
        shutil.rmtree(scratch, ignore_errors=True)
    print('selftest:', 'OK' if ok else 'FAILED')
    return 0 if ok else 1
