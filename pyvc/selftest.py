"""./check selftest [--fast]: guards the verifier itself (DESIGN 3.11).

* tool-chain present (z3 python API, cvc5 / z3 CLIs, /venv python importing ECAgent from /repo);
* planted mutants on a scratch copy of /repo/ECAgent (outside /repo and /verif, removed afterwards): each must
  fail the expected named obligation;
* harmless edits must stay green.
"""
import os
import shutil
import subprocess
import sys
import tempfile

ROOT = os.path.dirname(os.path.dirname(os.path.abspath(__file__)))

# (name, file, old, new, function key, obligation substring expected to fail)
MUTANTS = [
    ('add_system >=', 'Core.py', 'if s.priority > self.execution_queue[i].priority:',
     'if s.priority >= self.execution_queue[i].priority:', 'Core.SystemManager.add_system', 'add_system'),
    ('activation t % f', 'Core.py', '(sys.start - self.timestep) % sys.frequency == 0',
     'self.timestep % sys.frequency == 0', 'Core.SystemManager.execute_systems', 'execute_systems'),
    ('window end exclusive', 'Core.py', 'sys.start <= self.timestep <= sys.end', 'sys.start <= self.timestep < sys.end',
     'Core.SystemManager.execute_systems', 'execute_systems'),
    ('wrap uses height for x', 'Environments.py', 'component.x = (component.x + x) % self.width',
     'component.x = (component.x + x) % self.height', 'Environments.SpaceWorld.move', 'move_post'),
    ('tag filter on truthiness', 'Core.py', 'if tag is not None:\n            matching_agents = [a for a in matching_agents if a.tag == tag]',
     'if tag:\n            matching_agents = [a for a in matching_agents if a.tag == tag]', 'Core.Environment.get_agents',
     'get_agents_post'),
    ('random pick refuses on a completed model', 'Core.py', 'if len(valid_agents) == 0:',
     'if not self.model or len(valid_agents) == 0:', 'Core.Environment.get_random_agent', 'random_pick_post'),
    ('deregister keeps empty pool', 'Core.py', 'if len(self.component_pools[type(component)]) == 0:',
     'if len(self.component_pools[type(component)]) < 0:', 'Core.SystemManager.deregister_component', 'deregister'),
]
HARMLESS = [
    ('keys() dropped', 'Core.py', 'if s.id in self.systems.keys():', 'if s.id in self.systems:',
     'Core.SystemManager.add_system'),
    ('renamed loop variable', 'Core.py', 'for ckey in agent.components:\n                self.model.systems.register_component(agent[ckey])',
     'for ctype in agent.components:\n                self.model.systems.register_component(agent[ctype])',
     'Core.Environment.add_agent'),
]


class _Rep:
    pass


def _verify(repo, key, timeout_ms=8000):
    sys.path.insert(0, ROOT)
    from pyvc.frontend import Program
    from pyvc.specs import REG
    import contracts.all     # noqa: F401
    from pyvc import verify, solve
    prog = Program(repo)
    c = REG.contracts[key]
    out = _Rep()
    out.obs, out.error = [], None
    for mode in c.modes:
        for case in (c.cases or [None]):
            if case is not None and case.get('mode') not in (None, mode):
                continue
            rep = verify.verify_function(prog, REG, key, mode=mode, case=case)
            out.obs += rep.obs
            out.error = out.error or rep.error
    solve.discharge(out.obs, timeout_ms=timeout_ms, want_model=False, fallback=False)
    return out


def run(fast=False):
    ok = True
    # ---- tool chain
    try:
        import z3
        print('selftest: z3', z3.get_version_string())
    except Exception as ex:
        print('selftest: z3 python API missing', ex)
        return 1
    for tool in ('/usr/bin/cvc5', '/usr/bin/z3', '/venv/bin/python'):
        if not os.path.exists(tool):
            print('selftest: missing', tool)
            ok = False
    p = subprocess.run(['/venv/bin/python', '-c', 'import ECAgent.Core, ECAgent.Environments; print(ECAgent.Core.__file__)'],
                       capture_output=True, text=True)
    if p.returncode != 0:
        print('selftest: /venv/bin/python cannot import ECAgent:', p.stderr[-300:])
        ok = False
    else:
        print('selftest: native ECAgent at', p.stdout.strip())
    # ---- planted mutants on a scratch copy
    from pyvc import solve
    scratch = tempfile.mkdtemp(prefix='verif-selftest-')
    try:
        muts = MUTANTS[:1] if fast else MUTANTS
        harmless = HARMLESS[:1] if fast else HARMLESS
        for name, fn, old, new, key, expect in muts:
            shutil.rmtree(os.path.join(scratch, 'ECAgent'), ignore_errors=True)
            shutil.copytree('/repo/ECAgent', os.path.join(scratch, 'ECAgent'))
            path = os.path.join(scratch, 'ECAgent', fn)
            src = open(path, newline='').read()
            if old not in src:
                print(f'selftest: mutant "{name}": anchor text not found (source changed) - skipped')
                continue
            open(path, 'w', newline='').write(src.replace(old, new))
            rep = _verify(scratch, key)
            bad = [o.name for o in rep.obs if o.result != 'unsat']
            hit = [b for b in bad if expect in b]
            print(f'selftest: mutant "{name}": {len(bad)} obligations fail, expected "{expect}": {"yes" if hit else "NO"}')
            if not hit:
                ok = False
        for name, fn, old, new, key in harmless:
            shutil.rmtree(os.path.join(scratch, 'ECAgent'), ignore_errors=True)
            shutil.copytree('/repo/ECAgent', os.path.join(scratch, 'ECAgent'))
            path = os.path.join(scratch, 'ECAgent', fn)
            src = open(path, newline='').read()
            if old not in src:
                print(f'selftest: harmless edit "{name}": anchor text not found (source changed) - skipped')
                continue
            open(path, 'w', newline='').write(src.replace(old, new))
            rep = _verify(scratch, key)
            bad = [o.name for o in rep.obs if o.result != 'unsat']
            print(f'selftest: harmless edit "{name}": {len(rep.obs)} obligations, {len(bad)} fail, error={rep.error}')
            if bad or rep.error:
                ok = False
        # CPython cross-check of the engine's reading of Python (pyvc/xcheck.py)
        from pyvc import xcheck
        xr = xcheck.run(per_fn=6 if fast else 40)
        print(f'selftest: CPython cross-check: {xr["functions"]} functions, {xr["inputs"]} inputs, {xr["agreed"]} agree, '
              f'{len(xr["mismatches"])} mismatches, {len(xr["skipped"])} functions outside the engine\'s subset')
        for m_ in xr['mismatches'][:10]:
            print('selftest:   mismatch', m_)
        if xr['mismatches'] or xr['functions'] < 30:
            ok = False
        import json
        os.makedirs(os.path.join(ROOT, 'out'), exist_ok=True)
        with open(os.path.join(ROOT, 'out', 'xcheck.json'), 'w') as fh:
            json.dump(xr, fh, indent=1)
    finally:
        solve.close()
        shutil.rmtree(scratch, ignore_errors=True)
    print('selftest:', 'OK' if ok else 'FAILED')
    return 0 if ok else 1
