"""The symbolic executor: assembles the mixins, evaluates specifications, generates named obligations."""
import ast
import re
import time
import z3
from . import types as ty
from .values import (I, B, V, VInt, VBool, VNum, VStr, VCls, VNone, VRef, VTuple, VFunc, VRange, VView,
                     VModule, VOld, VExc, VGhost, State, Ctx, Unsupported)
from .heap import HeapMixin, PyRaise, PathEnd
from .exprs import ExprMixin
from .calls import CallMixin, Frame, _Return
from .stmts import StmtMixin, _Break, _Continue
from . import specs as S

BUILTIN_TYPES = ['int', 'str', 'bool', 'tuple', 'float', 'list', 'dict', 'NoneType', 'type', 'ndarray', 'object',
                 'Iterable', 'function', 'DataFrame', 'Row', 'Random', 'Logger', 'File']


class Obligation:
    def __init__(self, name, hyps, goal, props, kind, func, meta=None):
        self.name = name
        self.hyps = hyps
        self.goal = goal
        self.props = list(props)
        self.kind = kind            # post xpost raises safe inv frame call-pre assert lemma smoke
        self.func = func
        self.meta = meta or {}
        self.result = None
        self.time = 0.0
        self.backend = None
        self.model = None

    def prepared(self):
        """Goal-directed instantiation (sound: only adds instances of hypotheses): a universally quantified goal
        is skolemised here, and every universally quantified hypothesis over integer variables is instantiated at
        the goal's skolem constants (same arity: positionally; unary hypotheses: at each constant).  This stands
        in for triggers when the index terms are arithmetic (row-major ids), where E-matching has no pattern."""
        goal = self.goal
        extra = []
        if z3.is_quantifier(goal) and goal.is_forall() and goal.num_vars() <= 4 and \
                all(goal.var_sort(k) == I for k in range(goal.num_vars())):
            n = goal.num_vars()
            sks = [z3.Int(f'sk!{goal.var_name(k)}') for k in range(n)]
            goal = z3.substitute_vars(goal.body(), *reversed(sks))
            for h in self.hyps:
                if z3.is_quantifier(h) and h.is_forall() and all(h.var_sort(k) == I for k in range(h.num_vars())):
                    m = h.num_vars()
                    if m == n:
                        extra.append(z3.substitute_vars(h.body(), *reversed(sks)))
                    elif m == 1 and n <= 3:
                        for c in sks:
                            extra.append(z3.substitute_vars(h.body(), c))
        return list(self.hyps) + extra, goal

    def smt2(self):
        s = z3.Solver()
        hyps, goal = self.prepared()
        for h in hyps:
            s.add(h)
        s.add(z3.Not(goal))
        return s.to_smt2()


class VGhostMap(V):
    def __init__(self, name, st=None):
        self.name = name
        self.st = st


class Exec(HeapMixin, ExprMixin, CallMixin, StmtMixin):
    def __init__(self, prog, reg, num_sort=I, pruning=True):
        self.prog = prog
        self.reg = reg
        self.specs = reg
        self.ctx = Ctx(num_sort)
        self.S = State()
        self.pc = []
        self.facts = []
        self.qguards = []
        self.qvars = []
        self.dec_ids = set()
        self.final_classes = set(getattr(reg, 'final_classes', ()))   # classes assumed not subclassed by users
        self._cur_call = None
        self.laws = []               # enumeration laws of this path (for the `origin` proof device)
        self.class_facts = False     # emit `class_of(x) <: declared class` typing facts (only needed for isinstance)
        self._fact_ids = set()
        self.obs = []
        self.script = []
        self.pos = 0
        self.frame = None
        self.depth = 0
        self.spec_mode = False
        self.pruning = pruning
        self.prune_ms = 1500
        self._quant_cache = {}
        self._wf_done = set()
        self._enum = {}
        self._expect = None
        self._acc_capture = None
        self.attr_hooks = {}
        self.setattr_hooks = {}
        self.builtin_hooks = {}
        self.with_hooks = {}
        self.iter_hooks = {}
        self.ext_contracts = {}
        self.spec_globals = {}
        self.assumptions_used = set()
        self.callee_used = set()
        self.fresh_acc = {}
        self.cur = None              # contract under verification
        self.view = None
        self.cur_fi = None
        self.path_id = 0
        self.ob_counter = {}
        self.extlog = []
        self._class_ids = {}
        names = list(prog.classes) + BUILTIN_TYPES + list(reg.user_classes)
        for k, n in enumerate(names):
            self._class_ids[n] = -(k + 1)
        self._subclass = z3.Function('subclass', I, I, B)
        self._subclass_done = set()
        self.exits = []
        from . import hooks
        hooks.install(self)

    # ------------------------------------------------------------------ classes
    def cls_id(self, name):
        return self._class_ids.get(name)

    def cls_name_of_term(self, term):
        t = z3.simplify(term)
        if z3.is_int_value(t):
            v = t.as_long()
            for n, k in self._class_ids.items():
                if k == v:
                    return n
        return None

    def bases_of(self, name):
        if name in self.prog.classes:
            return self.prog.mro(name) + ['object']
        if name in self.reg.user_classes:
            b = self.reg.user_classes[name]
            return [name] + self.bases_of(b)
        if name == 'bool':
            return ['bool', 'int', 'object']
        return [name, 'object']

    def subclass_term(self, clsterm, cname):
        cid = self.cls_id(cname)
        if cid is None:
            raise Unsupported(f'unknown class {cname}')
        if cname not in self._subclass_done:
            self._subclass_done.add(cname)
            for n, k in self._class_ids.items():
                self.facts.append(self._subclass(z3.IntVal(k), z3.IntVal(cid)) == z3.BoolVal(cname in self.bases_of(n)))
        return self._subclass(clsterm, z3.IntVal(cid))

    # ------------------------------------------------------------------ field types
    def field_type(self, cname, name):
        if cname in self.prog.classes:
            for c in self.prog.mro(cname):
                t = self.reg.fields.get((c, name))
                if t is not None:
                    return ty.parse(t)
            # downcast by field name: a value declared with a base class (dict of Components) may be an instance
            # of a subclass that declares the field (PositionComponent.x)
            for (c, f), t in self.reg.fields.items():
                if f == name and c in self.prog.classes and self.prog.is_subclass(c, cname):
                    return ty.parse(t)
            return None
        t = self.reg.fields.get((cname, name))
        return ty.parse(t) if t is not None else None

    def field_type_by_name(self, name):
        if name == '__class__':
            return ty.CLS
        found = None
        for (c, f), t in self.reg.fields.items():
            if f == name:
                if found is not None and self.ctx.sort_of(ty.parse(t)) != self.ctx.sort_of(ty.parse(found)):
                    raise Unsupported(f'field {name} declared with different sorts')
                found = t
        if found is None:
            raise Unsupported(f'field {name} has no sidecar type')
        return ty.parse(found)

    def expect_type(self, e):
        return self._expect

    def local_type_hint(self, st):
        c = self.cur_local_types()
        if len(st.targets) == 1 and isinstance(st.targets[0], ast.Name):
            t = c.get(st.targets[0].id)
            return ty.parse(t) if t else None
        if len(st.targets) == 1 and isinstance(st.targets[0], ast.Attribute):
            obj = st.targets[0]
            try:
                ov = self.eval(obj.value)
            except Unsupported:
                return None
            if isinstance(ov, VRef) and isinstance(ov.typ, ty.TRef):
                return self.field_type(ov.typ.cls, obj.attr)
            if isinstance(ov, VFunc) and ov.kind == 'class':
                return self.field_type(self.prog.metaclass_of(ov.name) or '', obj.attr)
        return None

    def cur_local_types(self):
        fr = self.frame
        if fr is not None and fr.fi is not None:
            c = self.specs.lookup(fr.fi, self.view)
            if c is not None:
                if not c.roles:
                    return c.locals
                ren = self.role_names(fr.fi, c)
                return {ren.get(k, k): v for k, v in c.locals.items()}
        return {}

    def role_names(self, fi, c):
        """Sidecar name -> actual local name, for locals identified by role ('emptylist#k' / 'emptydict#k': the k-th
        local initialised with an empty list / dict display, in source order) - survives renaming."""
        cache = getattr(fi, '_roles', None)
        if cache is None:
            lists, dicts = [], []
            for n in ast.walk(fi.node):
                if isinstance(n, ast.Assign) and len(n.targets) == 1 and isinstance(n.targets[0], ast.Name):
                    if isinstance(n.value, ast.List) and not n.value.elts:
                        lists.append((n.lineno, n.targets[0].id))
                    if isinstance(n.value, ast.Dict) and not n.value.keys:
                        dicts.append((n.lineno, n.targets[0].id))
            cache = dict(emptylist=[x for _, x in sorted(lists)], emptydict=[x for _, x in sorted(dicts)])
            fi._roles = cache
        out = {}
        for name, role in c.roles.items():
            kind, _, k = role.partition('#')
            seq = cache.get(kind, [])
            if int(k) < len(seq):
                out[name] = seq[int(k)]
        return out

    def used_assumption(self, text):
        self.assumptions_used.add(text)

    # ------------------------------------------------------------------ module-level names
    def module_attr(self, mod, name):
        h = self.attr_hooks.get(('module:' + mod, name)) or self.attr_hooks.get(('module:' + mod, '*'))
        if h is not None:
            return h(self, mod, name)
        raise Unsupported(f'{mod}.{name}')

    def module_global(self, module, name):
        h = self.attr_hooks.get(('global:' + module, name))
        if h is not None:
            return h(self, module, name)
        return self.eval_in_module(self.prog.module_globals[module][name], module)

    # ------------------------------------------------------------------ obligations
    # ------------------------------------------------------------------ focus (one property at a time)
    # A check of property P verifies its plan's functions using only clauses that P's check itself discharges:
    # tagged clauses (ensures / invariants / monitors / site assertions) of other properties are neither obliged for
    # P nor assumed as hypotheses (staging, loop heads, callee postconditions); untagged obligations of a function
    # (safety, exceptions, call preconditions, default frames) count for every property whose plan lists it.
    focus = None         # None (all tags) | dict(cid=..., deps={contract key: [tags that count as cid there]})

    def focus_tags(self, key=None):
        if self.focus is None:
            return None
        if key is None:
            key = self._full_key(self.cur) if self.cur is not None else ''
        d = self.focus.get('deps') or {}
        return {self.focus['cid']} | set(d.get(key, ())) | set(d.get(key.split('#')[0], ()))

    @staticmethod
    def _full_key(c):
        return c.key + (f'#{c.variant}' if getattr(c, 'variant', None) and '#' not in c.key else '')

    def in_focus(self, props, key=None):
        ft = self.focus_tags(key)
        return ft is None or props is None or bool(ft & set(props))

    def oblige(self, name, goal, kind='post', props=None, meta=None):
        if props is None:
            props = list(self.cur.props) if self.cur is not None else []
            if self.focus is not None and self.focus['cid'] not in props:
                props.append(self.focus['cid'])
        fname = self.cur_fi.qualname if self.cur_fi is not None else '?'
        k = self.ob_counter.get(name, 0)
        self.ob_counter[name] = k + 1
        full = f'{fname}/{name}' + (f'@{k}' if k else '') + f'#p{self.path_id}'
        ob = Obligation(full, list(self.facts) + list(self.pc), goal, props, kind, fname, meta)
        self.obs.append(ob)
        return ob

    def oblige_safe(self, exc, cond, what):
        if self.spec_mode:
            return
        c = z3.simplify(cond)
        if z3.is_true(c):
            return
        if self.cur is not None and exc in self.cur.implicit and self.depth == 0:
            if not self.branch(cond):
                raise PyRaise(exc, implicit=True, site=what)
            return
        self.oblige(f'safe:{exc}:{what}', cond, kind='safe')
        self.assume(cond)

    # ------------------------------------------------------------------ symbolic inputs
    def sym_value(self, name, t):
        t = ty.parse(t)
        if isinstance(t, ty.TTuple):
            return VTuple([self.sym_value(f'{name}_{k}', it) for k, it in enumerate(t.items)])
        if t == ty.NONE:
            return VNone()
        term = z3.Const(name, self.ctx.sort_of(t))
        v = self.from_terms([term], t)
        return self.typed(v)

    # ------------------------------------------------------------------ spec evaluation
    def global_name(self, name, module):
        if module is not None and module.startswith('$spec:'):
            import sys as _sys
            pm = _sys.modules.get(module[6:])
            if name in SPEC_HELPERS:
                return VFunc('spechelper', name=name)
            for (hk, hn), hook in self.attr_hooks.items():
                if hn == name and isinstance(hk, str) and hk.startswith('global:'):
                    return hook(self, hk[7:], name)
            if pm is not None and hasattr(pm, name):
                val = getattr(pm, name)
                if callable(val) and hasattr(val, '__code__'):
                    return VFunc('specfn', fn=val)
                import types as _types
                if isinstance(val, _types.ModuleType):
                    return VFunc('external', name=val.__name__, self=None)
                if isinstance(val, bool):
                    return VBool(val)
                if isinstance(val, int):
                    return VInt(val)
                if isinstance(val, str):
                    return VStr(self.ctx.strid(val), val)
            if name in self.prog.classes or name in self.reg.user_classes or name in BUILTIN_TYPES:
                return self.class_value(name)
            if name == 'maxsize':
                import sys as _sys
                return VInt(_sys.maxsize)
            if name == 'ghost':
                return VGhost()
            return ExprMixin.global_name(self, name, None)
        return ExprMixin.global_name(self, name, module)

    def class_value(self, name):
        return VFunc('class', name=name, clsterm=z3.IntVal(self.cls_id(name)))

    def with_state_force(self, v, st):
        if isinstance(v, VRef):
            return VRef(v.term, v.typ, st)
        if isinstance(v, VTuple):
            return VTuple([self.with_state_force(x, st) for x in v.items])
        return v

    def spec_terms(self, pred, env, label=None):
        """Symbolic reading of predicate `pred` under bindings env -> [(label, z3 Bool)]."""
        node = S.pred_ast(pred)
        params = [a.arg for a in node.args.args]
        loc = {}
        for p in params:
            if p not in env:
                raise Unsupported(f'predicate {pred.__name__} needs `{p}`, not available here')
            loc[p] = env[p]
        save = (self.frame, self.spec_mode, self.depth)
        self.frame = Frame(None, '$spec:' + pred.__module__, loc)
        self.spec_mode = True
        out = []
        name = label or pred.__name__
        try:
            body = list(node.body)
            if body and isinstance(body[0], ast.Expr) and isinstance(body[0].value, ast.Constant):
                body = body[1:]
            simple = all(isinstance(s, ast.Assign) for s in body[:-1]) and isinstance(body[-1], ast.Return)
            if simple:
                for s in body[:-1]:
                    self._expect = None
                    v = self.eval_pure(lambda s=s: self.eval(s.value))
                    for t in s.targets:
                        self.assign(t, v)
                ret = body[-1].value
                out.extend(self._split_conj(ret, name, pred.__module__))
            else:
                def run():
                    try:
                        self.exec_block(body)
                    except _Return as r:
                        return r.v
                    return VNone()
                v = self.eval_pure(run)
                out.append((name, self.truth(v)))
        finally:
            self.frame, self.spec_mode, self.depth = save
        return out

    def _split_conj(self, ret, name, modname, depth=0):
        """Top-level conjuncts of a predicate body; a conjunct that is a bare call of another simple spec
        predicate is split recursively (labels name[k] / callee[k])."""
        import sys as _sys
        out = []
        conj = ret.values if isinstance(ret, ast.BoolOp) and isinstance(ret.op, ast.And) else [ret]
        for k, c in enumerate(conj):
            label = f'{name}[{k}]' if len(conj) > 1 else name
            if depth < 3 and isinstance(c, ast.Call) and isinstance(c.func, ast.Name) and not c.keywords \
                    and not any(isinstance(a, ast.Starred) for a in c.args):
                pm = _sys.modules.get(modname)
                fn = getattr(pm, c.func.id, None) if pm is not None else None
                if fn is not None and hasattr(fn, '__code__') and c.func.id not in SPEC_HELPERS:
                    node = S.pred_ast(fn)
                    body = list(node.body)
                    if body and isinstance(body[0], ast.Expr) and isinstance(body[0].value, ast.Constant):
                        body = body[1:]
                    if all(isinstance(s, ast.Assign) for s in body[:-1]) and isinstance(body[-1], ast.Return) \
                            and isinstance(body[-1].value, ast.BoolOp) and isinstance(body[-1].value.op, ast.And):
                        args = [self.eval_pure(lambda a=a: self.eval(a)) for a in c.args]
                        loc = self.bind_params(node, args, {}, '$spec:' + fn.__module__)
                        save = self.frame
                        self.frame = Frame(None, '$spec:' + fn.__module__, loc)
                        try:
                            for s in body[:-1]:
                                v = self.eval_pure(lambda s=s: self.eval(s.value))
                                for t in s.targets:
                                    self.assign(t, v)
                            out.extend(self._split_conj(body[-1].value, c.func.id, fn.__module__, depth + 1))
                        finally:
                            self.frame = save
                        continue
            v = self.eval_pure(lambda c=c: self.eval(c))
            out.append((label, self.truth(v)))
        return out

    def call_specfn(self, f, args, kwargs):
        node = S.pred_ast(f.fn)
        loc = self.bind_params(node, args, dict(kwargs), '$spec:' + f.fn.__module__)
        save = self.frame
        self.frame = Frame(None, '$spec:' + f.fn.__module__, loc)
        self.depth += 1
        try:
            body = list(node.body)
            if body and isinstance(body[0], ast.Expr) and isinstance(body[0].value, ast.Constant):
                body = body[1:]
            try:
                self.exec_block(body)
            except _Return as r:
                return r.v
            return VNone()
        finally:
            self.frame = save
            self.depth -= 1

    def e_Call(self, e):
        if self.spec_mode and isinstance(e.func, ast.Name) and e.func.id in ('all', 'any') and e.args \
                and isinstance(e.args[0], ast.GeneratorExp):
            return self.quantify(e.args[0], e.func.id == 'all')
        if isinstance(e.func, ast.Name) and e.func.id == 'ghost':
            return VGhost()
        return CallMixin.e_Call(self, e)

    def call(self, f, args, kwargs, star=None, node=None):
        if isinstance(f, VFunc) and f.kind == 'spechelper':
            return SPEC_HELPERS[f.name](self, *args)
        return CallMixin.call(self, f, args, kwargs, star=star, node=node)

    def quantify(self, gen, is_all):
        fr = self.frame
        saved = dict(fr.locals)
        bvars, guards = [], []
        n0 = len(self.pc)
        save_q = self.qguards
        save_qv = self.qvars
        try:
            for g in gen.generators:
                itv = self.eval_pure(lambda g=g: self.eval(g.iter))
                self.ctx.n += 1
                bv = z3.Int(f'q{self.ctx.n}')
                bvars.append(bv)
                self.qvars = list(self.qvars) + [bv]
                if isinstance(itv, VView) and itv.kind in ('keys', 'items', 'values') or \
                        (isinstance(itv, VRef) and isinstance(itv.typ, ty.TDict)):
                    ref = itv.ref if isinstance(itv, VView) else itv
                    kind = itv.kind if isinstance(itv, VView) else 'keys'
                    kv = self.from_terms([bv], ref.typ.k, ref.st)
                    guard = self.dict_has(ref, kv)
                    if kind == 'keys':
                        elem = kv
                    elif kind == 'values':
                        elem = self.dict_get(ref, kv)
                    else:
                        elem = VTuple([kv, self.dict_get(ref, kv)])
                else:
                    im = self.iter_model(itv)
                    if im is None:
                        raise Unsupported('quantifier over a tuple')
                    guard = z3.And(bv >= im['start'], bv < im['n']())
                    elem = im['elem'](bv)
                guards.append(guard)
                self.pc.append(guard)
                self.qguards = list(self.qguards) + [guard]
                self.assign(g.target, elem)
                for c in g.ifs:
                    ct = self.truth(self.eval_pure(lambda c=c: self.eval(c)))
                    guards.append(ct)
                    self.pc.append(ct)
            body = self.truth(self.eval_pure(lambda: self.eval(gen.elt)))
        finally:
            self.pc = self.pc[:n0]
            self.qguards = save_q
            self.qvars = save_qv
            fr.locals = saved
        if is_all:
            return VBool(z3.ForAll(bvars, z3.Implies(z3.And(guards), body)))
        return VBool(z3.Exists(bvars, z3.And(guards + [body])))

    # ------------------------------------------------------------------ ghost
    def ghost_get(self, name):
        t = self.reg.ghosts.get(name)
        if t is None:
            raise Unsupported(f'ghost.{name} undeclared')
        if t.startswith('map'):
            return VGhostMap(name, getattr(self, '_ghost_st', None))
        return self.from_terms([self.arr(('g', name), getattr(self, '_ghost_st', None))], ty.parse(t))

    def ghost_base(self, name):
        if name == '$ov_has':
            return z3.Const('G_ov_has', z3.ArraySort(I, z3.ArraySort(I, B)))
        if name == '$ov_val':
            return z3.Const('G_ov_val', z3.ArraySort(I, z3.ArraySort(I, I)))
        t = self.reg.ghosts[name]
        if t.startswith('map'):
            inner = t[4:-1]
            return z3.Const(f'G_{name}', z3.ArraySort(I, self.ctx.sort_of(ty.parse(inner))))
        return z3.Const(f'G_{name}', self.ctx.sort_of(ty.parse(t)))

    def ghost_set(self, name, term):
        self.S.h[('g', name)] = term

    def getattr(self, obj, name):
        if isinstance(obj, VOld) and name == 'ghost':
            g = VGhost()
            g.st = obj.st
            return g
        if isinstance(obj, VGhost):
            st = getattr(obj, 'st', None)
            t = self.reg.ghosts.get(name)
            if t is None:
                raise Unsupported(f'ghost.{name} undeclared')
            if t.startswith('map'):
                return VGhostMap(name, st)
            return self.from_terms([self.arr(('g', name), st)], ty.parse(t), st)
        return ExprMixin.getattr(self, obj, name)

    def getitem(self, obj, idx):
        if isinstance(obj, VGhostMap):
            t = self.reg.ghosts[obj.name]
            inner = ty.parse(t[4:-1])
            return self.from_terms([z3.Select(self.arr(('g', obj.name), obj.st), self.coerce(idx, ty.ANY)
                                              if not hasattr(idx, 'term') else idx.term)], inner)
        return ExprMixin.getitem(self, obj, idx)

    # ------------------------------------------------------------------ modifies / havoc / frames
    def parse_loc(self, s, env, st):
        """Location string -> list of (array keys, ref term | None(all))."""
        s = s.strip()
        if s.startswith('store:'):
            t = ty.parse(s[6:])
            return [(k, None, False) for k in self.store_keys(t)]
        if s.startswith('new:'):
            rest = s[4:]
            if rest.startswith('obj:'):
                cname = rest[4:]
                keys = [('f', '__class__')] + [('f', f) for (c, f) in self.reg.fields if c in self.bases_of(cname)]
                return [(k, 'NEW', True) for k in dict.fromkeys(keys)]
            t = ty.parse(rest)
            return [(k, 'NEW', True) for k in self.store_keys(t)]
        if s.startswith('fieldall:'):
            return [(('f', s[9:]), None, False)]
        if s.startswith('ghost:'):
            return [(('g', s[6:]), None, False)]
        force_field = False
        if s.startswith('field:'):
            force_field = True
            s = s[6:]
        node = ast.parse(s, mode='eval').body
        save = (self.frame, self.spec_mode, self.S)
        self.frame = Frame(None, '$spec:' + (self.cur_spec_module or 'builtins'), dict(env))
        self.spec_mode = True
        self.S = st
        try:
            if isinstance(node, ast.Attribute):
                objv = self.eval_pure(lambda: self.eval(node.value))
                if isinstance(objv, VFunc) and objv.kind == 'class':
                    objv = self.class_ref(objv)
                if not (isinstance(objv, VRef) and isinstance(objv.typ, ty.TRef)):
                    v = self.eval_pure(lambda: self.eval(node))
                    if isinstance(v, VRef) and isinstance(v.typ, (ty.TList, ty.TDict)):
                        return [(k, v.term, False) for k in self.store_keys(v.typ)]
                    raise Unsupported(f'modifies location {s}')
                cname = objv.typ.cls
                ft = self.field_type(cname, node.attr)
                if ft is None:
                    v = self.eval_pure(lambda: self.getattr(objv, node.attr))
                    if isinstance(v, VRef) and isinstance(v.typ, (ty.TList, ty.TDict)):
                        return [(k, v.term, False) for k in self.store_keys(v.typ)]
                    raise Unsupported(f'modifies: unknown field {cname}.{node.attr}')
                if force_field or not isinstance(ft, (ty.TList, ty.TDict)):
                    return [(('f', node.attr), objv.term, False)]
                cont = self.read_field(VRef(objv.term, objv.typ, None), node.attr, ft)
                return [(k, cont.term, False) for k in self.store_keys(ft)]
            v = self.eval_pure(lambda: self.eval(node))
            if isinstance(v, VRef) and isinstance(v.typ, (ty.TList, ty.TDict)):
                return [(k, v.term, False) for k in self.store_keys(v.typ)]
            raise Unsupported(f'modifies location {s}')
        finally:
            self.frame, self.spec_mode, self.S = save

    def store_keys(self, t):
        if isinstance(t, ty.TList):
            return [('llen', t.key)] + [('lel', t.key, s) for s in range(len(ty.slots(t.elem)))]
        if isinstance(t, ty.TDict):
            return [('dhas', t.key), ('dstamp', t.key), ('dclock', t.key), ('dsize', t.key)] + \
                   [('dval', t.key, s) for s in range(len(ty.slots(t.v)))]
        raise Unsupported('store keys of non-container')

    def resolve_mods(self, mods, env, st):
        """-> dict: array key -> dict(all=bool, refs=[terms], new=bool)."""
        out = {}
        for m in mods:
            for key, ref, isnew in self.parse_loc(m, env, st):
                d = out.setdefault(key, dict(all=False, refs=[], new=False))
                if ref is None:
                    d['all'] = True
                elif isinstance(ref, str) and ref == 'NEW':
                    d['new'] = True
                else:
                    d['refs'].append(ref)
        return out

    def havoc(self, mods, env):
        """Havoc the declared locations of the current state (callee effect / loop)."""
        st0 = self.S.copy()
        alloc0 = self.arr('alloc')
        if 'store:*' in mods:
            for key, term in list(self.S.h.items()):
                if key != 'alloc':
                    self.S.h[key] = self.ctx.fresh('hvall', term.sort())
            na = self.ctx.fresh('alloc', I)
            self.fact(na >= alloc0)
            self.S.h['alloc'] = na
            return st0
        resolved = self.resolve_mods(mods, env, st0)
        anynew = any(d['new'] for d in resolved.values())
        for key, d in resolved.items():
            a = self.arr(key)
            if d['all']:
                self.S.h[key] = self.fresh('hv', a.sort())
                continue
            if not z3.is_array(a):
                self.S.h[key] = self.fresh('hv', a.sort())
                continue
            if d['new']:
                na = self.fresh('hv', a.sort())
                r = z3.Int('r')
                cond = [r < alloc0] + [r != x for x in d['refs']]
                self.fact(z3.ForAll([r], z3.Implies(z3.And(cond), z3.Select(na, r) == z3.Select(a, r))))
                self.S.h[key] = na
            else:
                for x in d['refs']:
                    a = z3.Store(a, x, self.fresh('hv', a.sort().range()))
                self.S.h[key] = a
        if anynew:
            na = self.fresh('alloc', I)
            self.fact(na >= alloc0)
            self.S.h['alloc'] = na
        return st0

    def frame_check(self, base, mods, env, label, props, alloc0=None):
        """Everything outside `mods` (evaluated in `base`) is unchanged w.r.t. state `base`."""
        if 'store:*' in mods:
            return
        resolved = self.resolve_mods(mods, env, base)
        alloc0 = alloc0 if alloc0 is not None else self.arr('alloc', base)
        for key, term in list(self.S.h.items()):
            if key == 'alloc' or (isinstance(key, tuple) and key[0] == 'g'):
                continue
            if isinstance(key, tuple) and len(key) > 1 and key[1] == 'list[cls]':
                continue
            if isinstance(key, tuple) and key[0] == 'f' and key[1] in self.reg.auto_fields:
                continue        # attribute unknown to every contract: cannot affect a specified observation        # *args tuples are immutable values; their list model never escapes
            b = base.h.get(key)
            if b is None:
                b = self.ctx.base.get(key)
                if b is None:
                    continue
            if term is b or term.eq(b):
                continue
            d = resolved.get(key, dict(all=False, refs=[], new=False))
            if d['all']:
                continue
            kn = '_'.join(str(x) for x in key) if isinstance(key, tuple) else key
            tags = self.reg.frame_tags.get(key[1] if isinstance(key, tuple) and len(key) > 1 else key)
            kprops = tags if tags is not None else props
            if not z3.is_array(term):
                self.oblige(f'frame:{label}:{kn}', term == b, kind='frame', props=kprops)
                continue
            r = z3.Int('r')
            cond = [r != x for x in d['refs']]
            if d['new']:
                cond.append(r < alloc0)
            goal = z3.ForAll([r], z3.Implies(z3.And(cond) if cond else z3.BoolVal(True),
                                             z3.Select(term, r) == z3.Select(b, r)))
            self.oblige(f'frame:{label}:{kn}', goal, kind='frame', props=kprops)

    # ------------------------------------------------------------------ loops: invariants
    def loop_spec(self, fi, ordn):
        if fi is None:
            return None
        c = self.specs.lookup(fi, self.view)
        if c is None:
            return None
        return c.loops.get(ordn)

    def inv_env(self):
        env = dict(self.top_env)
        env.update(self.frame.locals)
        env['old'] = VOld(self.top_env, self.pre_state)
        c = self.cur
        if c is not None and c.roles and self.frame.fi is not None:
            for side, actual in self.role_names(self.frame.fi, c).items():
                if actual in env and side not in env:
                    env[side] = env[actual]
        return env

    def check_invariant(self, spec, fname, ordn, kind, entry_state):
        env = self.inv_env()
        env['entry'] = VOld(dict(self.frame.locals), entry_state)
        for pred in spec.get('invariant', []):
            props = spec.get('props')
            if isinstance(pred, tuple):
                pred, props = pred
            if not self.in_focus(props):
                continue
            for label, term in self.spec_terms(pred, env):
                self.oblige(f'{kind}:L{ordn}:{label}', term, kind='inv', props=props)
                self.assume(term)       # staged
        if kind == 'inv-step' and spec.get('modifies') is not None:
            self.frame_check(self._loop_head, spec['modifies'], env, f'L{ordn}', spec.get('props'),
                             alloc0=self.arr('alloc', entry_state))

    def assume_invariant(self, spec, entry_state):
        env = self.inv_env()
        env['entry'] = VOld(dict(self.frame.locals), entry_state)
        for pred in spec.get('invariant', []):
            props = spec.get('props')
            if isinstance(pred, tuple):
                pred, props = pred
            if not self.in_focus(props):
                continue
            for label, term in self.spec_terms(pred, env):
                self.assume(term)
        self._loop_head = self.S.copy()

    def havoc_loop(self, st, spec, entry_state):
        from .stmts import assigned_names
        fr = self.frame
        ltypes = self.cur_local_types()
        for n in sorted(assigned_names(st.body)):
            if n in fr.locals:
                if n in ltypes and not isinstance(ty.parse(ltypes[n]), (ty.TList, ty.TDict)):
                    self.ctx.n += 1
                    fr.locals[n] = self.sym_value(f'{n}!{self.ctx.n}', ltypes[n])
                else:
                    fr.locals[n] = self.fresh_like(fr.locals[n], n)
        if st.__class__.__name__ == 'For':
            for n in sorted(assigned_names([ast.Expr(value=st.target)])):
                pass
        env = self.inv_env()
        self.havoc(spec.get('modifies', []) or [], env)
        # a role-named local that the loop re-binds keeps its sidecar alias in step with the actual name


    def fresh_like(self, v, name):
        if isinstance(v, VTuple):
            return VTuple([self.fresh_like(x, f'{name}{k}') for k, x in enumerate(v.items)])
        if isinstance(v, VNone):
            # None-initialised local assigned inside the loop: an opaque optional value
            return VRef(self.fresh(name, I), ty.ANY)
        if isinstance(v, (VFunc, VRange, VView)):
            return v
        t = self.type_of(v)
        nv = self.from_terms([self.fresh(name, self.ctx.sort_of(t) if not (isinstance(v, VNum)) else v.term.sort())], t)
        if isinstance(v, VNum):
            nv = VNum(nv.term)
        return self.typed(nv)

    # ------------------------------------------------------------------ modular calls
    def call_contract(self, fi, c, args, kwargs, star=None):
        node = fi.node
        env = self.bind_params(node, args, dict(kwargs), fi.module, star=star)
        va = node.args.vararg
        if va is not None and isinstance(env.get(va.arg), VTuple) and ('*' + va.arg) in c.params:
            vt = ty.parse(c.params['*' + va.arg])
            if isinstance(vt, ty.TList):
                env[va.arg] = self.new_list(vt, env[va.arg].items)
        for pn, pt in c.params.items():
            v = env.get(pn)
            if isinstance(v, VRef) and v.typ == ty.ANY:
                t = ty.parse(pt)
                if isinstance(t, (ty.TDict, ty.TList, ty.TRef)):
                    env[pn] = VRef(v.term, t, v.st)
        fr = self.frame
        k = fr.call_ord if fr is not None else 0
        callee = fi.qualname
        _names = list(env)
        _first = _names[1:2] if _names and _names[0] in ('self', 'cls') else _names[:1]
        self.site_check([env[n_] for n_ in _first], phase='pre')
        self.cur_spec_module_push(c)
        try:
            # 1. preconditions (and, for abstract callees, call-site monitors)
            assumed_pre = self.cur is not None and fi.key in self.cur.assume_callee_pre and self.depth == 0
            for pred in c.requires:
                for label, term in self.spec_terms(pred, env):
                    if not assumed_pre:
                        self.oblige(f'call-pre:{callee}:{label}', term, kind='call-pre')
                    else:
                        self.used_assumption(f'precondition {label} of {callee} assumed at its call site in '
                                             f'{self.cur_fi.qualname} (user-built object)')
                    self.assume(term)
            menv = dict(env)
            if fr is not None:
                cl = dict(fr.locals)
                if getattr(self, 'top_env', None) is not None:
                    cl['old'] = VOld(self.top_env, self.pre_state)
                menv['caller'] = VOld(cl, None)
                if c.kind == 'abstract':
                    env = menv
            for tag, preds in c.monitor.items():
                if not self.in_focus([tag]):
                    continue
                for pred in preds:
                    for label, term in self.spec_terms(pred, menv):
                        self.oblige(f'assert:{label}', term, kind='assert', props=[tag])
                        self.assume(term)
            # 2. outcomes
            excs = list(c.raises.items())
            choice = self.choose(1 + len(excs))
            pre = self.S.copy()
            old = VOld(env, pre)
            env2 = dict(env)
            env2['old'] = old
            if choice == 0:
                self.havoc(c.modifies, env)
                result = VNone()
                if c.returns is not None:
                    self.ctx.n += 1
                    rname = f'res_{callee.replace(".", "_")}!{self.ctx.n}'
                    if self.qvars:
                        rt = ty.parse(c.returns)
                        if isinstance(rt, ty.TTuple):
                            raise Unsupported('tuple result of a pure contract call under a quantifier')
                        result = self.typed(self.from_terms([self.fresh(rname, self.ctx.sort_of(rt))], rt))
                    else:
                        result = self.sym_value(rname, c.returns)
                env2['result'] = result
                if c.effects is not None:
                    from . import hooks as _hooks
                    for eff in ([c.effects] if isinstance(c.effects, str) else c.effects):
                        _hooks.EFFECTS[eff](self, env2, pre)
                sink = self.fact if (c.pure and self.qvars) else self.assume
                for exc, rd in excs:
                    mustp = rd.get('must') or rd.get('when')
                    if mustp is not None and rd.get('iff', True):
                        terms = [t for _, t in self.spec_terms(mustp, env2)]
                        sink(z3.Not(z3.And(terms)))
                if c.kind != 'abstract':
                    self.callee_used.add(self._full_key(c))
                for tag, preds in c.ensures.items():
                    # an abstract (user-code / assumed) contract is an assumption as a whole; a checked callee's
                    # clause is a hypothesis only if this property's check discharges it
                    if c.kind != 'abstract' and not self.in_focus([tag], self._full_key(c)):
                        continue
                    for pred in preds:
                        for label, term in self.spec_terms(pred, env2):
                            sink(term)
                if not self.qvars:
                    self.prune()
                self.site_check([], result=result, phase='post')
                return result
            exc, rd = excs[choice - 1]
            if rd.get('when') is not None:
                for label, term in self.spec_terms(rd['when'], env2):
                    self.assume(term)
            self.havoc(rd.get('modifies', []), env)
            if c.kind != 'abstract':
                self.callee_used.add(self._full_key(c))
            for tag, preds in (rd.get('ensures') or {}).items():
                if c.kind != 'abstract' and not self.in_focus([tag], self._full_key(c)):
                    continue
                for pred in preds:
                    for label, term in self.spec_terms(pred, env2):
                        self.assume(term)
            self.prune()
            raise PyRaise(exc)
        finally:
            self.cur_spec_module_pop()

    cur_spec_module = None

    def cur_spec_module_push(self, c):
        self._csm = getattr(self, '_csm', [])
        self._csm.append(self.cur_spec_module)
        mod = None
        for preds in list(c.ensures.values()) + [c.requires]:
            for p in preds:
                mod = p.__module__
                break
            if mod:
                break
        self.cur_spec_module = mod or self.cur_spec_module

    def cur_spec_module_pop(self):
        self.cur_spec_module = self._csm.pop()

    # ------------------------------------------------------------------ externals
    def call_ordinal(self, node):
        fi = self.frame.fi if self.frame is not None else None
        if fi is None or node is None:
            return None
        cache = getattr(fi, '_call_ords', None)
        if cache is None:
            cache = {}
            names = {}
            counts = {}

            def visit(n):
                for c in ast.iter_child_nodes(n):
                    if isinstance(c, ast.Call):
                        cache[id(c)] = len(cache)
                        nm = c.func.attr if isinstance(c.func, ast.Attribute) else (c.func.id if isinstance(c.func, ast.Name) else None)
                        if nm is not None:
                            names[id(c)] = (nm, counts.get(nm, 0))
                            counts[nm] = counts.get(nm, 0) + 1
                    visit(c)
            visit(fi.node)
            fi._call_ords = cache
            fi._call_names = names
        return cache.get(id(node))

    def site_for(self, c, node):
        """Call-site contract of `node`: by source-order ordinal (int key), by 'name#k' (k-th call of that name in the
        function) or by 'name#*' (every call of that name - survives statements being added in between)."""
        k = self.call_ordinal(node)
        if k in c.sites:
            return k, c.sites[k]
        nm = getattr(self.frame.fi, '_call_names', {}).get(id(node)) if self.frame is not None and self.frame.fi is not None else None
        if nm is not None:
            for key in (f'{nm[0]}#{nm[1]}', f'{nm[0]}#*'):
                if key in c.sites:
                    return key, c.sites[key]
        return k, None

    def site_check(self, args, result=None, phase='pre'):
        """Call-site contract of the function under verification (sites={call ordinal: ...}): assertions over the
        caller's locals + `arg` before the call, ghost effect after it."""
        c = self.cur
        if c is None or not getattr(c, 'sites', None) or self.depth != 0 or self.spec_mode:
            return
        k, site = self.site_for(c, self._cur_call)
        if site is None:
            return
        env = dict(self.frame.locals)
        env['arg'] = args[0] if args else VNone()
        env['old'] = VOld(self.top_env, self.pre_state)
        if phase == 'pre':
            for pred in site.get('assert', []):
                if not self.in_focus(site.get('props')):
                    continue
                for label, term in self.spec_terms(pred, env):
                    self.oblige(f'site{k}:{label}', term, kind='assert', props=site.get('props'))
                    self.assume(term)
        else:
            env['result'] = result
            if site.get('effect'):
                from . import hooks as _hooks
                _hooks.EFFECTS[site['effect']](self, env, None)

    def external_call(self, name, selfv, args, kwargs, star=None):
        h = self.ext_contracts.get(name)
        if h is None:
            raise Unsupported(f'external call {name} has no assumed contract')
        self.extlog.append((name, selfv, args))
        self._star_arg = star
        self.site_check(args, phase='pre')
        r = h(self, selfv, args, kwargs)
        self.site_check(args, result=r, phase='post')
        return r


# ----------------------------------------------------------------------------------------------
# symbolic reading of the spec helpers
# ----------------------------------------------------------------------------------------------
def _h_implies(eng, a, b):
    return VBool(z3.Implies(eng.truth(a), eng.truth(b)))


def _h_iff(eng, a, b):
    return VBool(eng.truth(a) == eng.truth(b))


def _h_index_of(eng, L, x):
    b, w = eng.list_index_witness(L, x)
    return VInt(z3.If(b, w, eng.llen(L)))


def _h_order_of(eng, d, k):
    has, vals, stamp, clock, size = eng.d_parts(d)
    return VInt(z3.Select(stamp, eng.key_term(d, k)))


def _h_key_at(eng, d, i):
    n, key_at, pos_of = eng.dict_enum(d)
    return eng.from_terms([key_at(eng.arith_term(i))], d.typ.k, d.st)


def _h_pos_in(eng, d, k):
    n, key_at, pos_of = eng.dict_enum(d)
    return VInt(pos_of(eng.key_term(d, k)))


def _module_global_pred(eng, module, name_term):
    f = z3.Function(f'module_global_{module}', I, B)
    return f(name_term)


def _h_json_content(eng, file_name):
    """The parsed content of the JSON file of that name (what json.load(open(name)) returns, assumed contract)."""
    log = z3.Function('file_log', I, I)
    g = z3.Function('json_content', I, I)
    return VRef(g(log(file_name.term)), ty.ANY)


def _h_is_module_global(eng, name):
    """`name` is bound at module level in the module of the function under verification (uninterpreted: whatever the
    module binds, the code must treat it the same way - this is what `name in globals()` tests)."""
    mod = eng.cur_fi.module if eng.cur_fi is not None else '?'
    return VBool(_module_global_pred(eng, mod, name.term))


def _h_is_fresh(eng, x, old):
    return VBool(x.term >= eng.arr('alloc', old.st))


def _h_same_elems(eng, a, b):
    for x in (a, b):
        if not (isinstance(x, VRef) and isinstance(x.typ, ty.TList)):
            raise Unsupported(f'same_elems: {type(x).__name__} is not a list (the contract names a local the code no '
                              f'longer has?)')
    j = z3.Int('sj')
    n = eng.llen(a)
    eqs = [z3.Select(x, j) == z3.Select(y, j) for x, y in zip(eng.lel_arrays(a), eng.lel_arrays(b))]
    return VBool(z3.And(n == eng.llen(b), z3.ForAll([j], z3.Implies(z3.And(0 <= j, j < n), z3.And(eqs)))))


def _h_same_dict(eng, a, b):
    ha, va, sa, ca, na = eng.d_parts(a)
    hb, vb, sb, cb, nb = eng.d_parts(b)
    k, k2 = z3.Int('sk'), z3.Int('sk2')
    return VBool(z3.And(
        na == nb,
        z3.ForAll([k], z3.And(z3.Select(ha, k) == z3.Select(hb, k),
                              z3.Implies(z3.Select(ha, k), z3.And([z3.Select(x, k) == z3.Select(y, k)
                                                                   for x, y in zip(va, vb)])))),
        z3.ForAll([k, k2], z3.Implies(z3.And(z3.Select(ha, k), z3.Select(ha, k2)),
                                      (z3.Select(sa, k) < z3.Select(sa, k2)) == (z3.Select(sb, k) < z3.Select(sb, k2))))))


def _h_same(eng, a, b):
    return VBool(eng.values_equal(a, b, identity=True))


def _h_now(eng, x):
    return eng.with_state_force(x, None)


def _h_was(eng, old, x):
    return eng.with_state_force(x, old.st)


def _h_origin(eng, lst, i):
    """Proof device: the loop-variable values (outermost first) that produced element i of a list built by an
    accumulation loop / comprehension of the verified function (the enumeration law's source witnesses)."""
    arrs = eng.lel_arrays(lst)
    idx = eng.arith_term(i)
    for law in reversed(eng.laws):
        for a in arrs:
            sa = z3.simplify(a)
            if any(sa.eq(z3.simplify(t)) or a.eq(t) for t in law['terms']):
                base = law['base']
                return VTuple([VInt(s(idx - base)) for s in law['srcs']])
    raise Unsupported('origin(): the list was not built by an enumeration law of this function')


def _h_by_lemma(eng, fn, *args):
    """Instance of a lemma that is discharged separately for all values (it must be registered with lemma())."""
    if not (isinstance(fn, VFunc) and fn.kind == 'specfn'):
        raise Unsupported('by_lemma: first argument must be a lemma predicate')
    if not any(l['fn'] is fn.fn for l in eng.reg.lemmas):
        raise Unsupported(f'by_lemma: {fn.fn.__name__} is not a registered lemma')
    r = eng.call_specfn(fn, list(args), {})
    eng.fact(eng.truth(r))
    eng.used_assumption(f'lemma {fn.fn.__name__} (discharged as its own obligation)')
    return VBool(True)


def _h_as_list(eng, x):
    if isinstance(x, VRef) and isinstance(x.typ, ty.TList):
        return x
    if isinstance(x, VRef) and x.typ == ty.ANY:
        return VRef(x.term, ty.parse('list[any]'), x.st)
    raise Unsupported('as_list of this value')


def _h_is_ndarray(eng, x):
    f = z3.Function('isinstance_numpy_ndarray', I, B)
    return VBool(f(x.term))


def _h_is_list(eng, x):
    return VBool(eng.isinstance_term(x, VFunc('builtin', name='list')))


def _h_is_str_value(eng, x):
    return VBool(eng.type_of_value(x).term == eng.cls_id('str')) if not isinstance(x, VStr) else VBool(True)


def _h_iterable(eng, x):
    return VBool(z3.Function('iterable', I, B)(x.term))


def _h_items_of(eng, x):
    r = VRef(z3.Function('items_of', I, I)(x.term), ty.parse('list[any]'), x.st)
    # the items of a pre-existing collection are a pre-existing sequence (heap typing of the iterator model)
    a0 = eng.ctx.base.get('alloc')
    if a0 is None:
        a0 = eng.arr('alloc')
    eng.fact(z3.And(r.term > 0, r.term < a0))
    return r


def _h_rec_has(eng, d, k):
    return VBool(z3.Function('rec_has', I, I, B)(d.term, k.term))


def _h_rec_get(eng, d, k):
    return VRef(z3.Function('rec_get', I, I, I)(d.term, k.term), ty.ANY)


def _agg(name):
    def h(eng, lst):
        f = z3.Function('agg_' + name, I, eng.ctx.num)
        return VNum(f(lst.term))
    return h


def _h_as_dict(eng, x):
    if isinstance(x, VRef) and isinstance(x.typ, ty.TDict):
        return x
    return VRef(x.term, ty.parse('dict[str,any]'), x.st)


def _h_file_log(eng, name):
    return VRef(z3.Function('file_log', I, I)(name.term), ty.parse('list[any]'))


def _h_desc_writes_ok(eng):
    """Item assignments made on opaque (description) dictionaries so far only concern the keys 'model' and
    'agent_index' (ghost overlay of pyvc.hooks.ext_any_setitem)."""
    from .hooks import _overlay
    has, val = _overlay(eng, getattr(eng, '_ghost_st', None))
    x, k = z3.Int('ox'), z3.Int('ok')
    return VBool(z3.ForAll([x, k], z3.Implies(z3.Select(z3.Select(has, x), k),
                                              z3.Or(k == eng.ctx.strid('model'), k == eng.ctx.strid('agent_index')))))


def _h_rng_seed(eng, r):
    return VRef(z3.Function('rng_seed', I, I)(r.term), ty.ANY)


def _h_typeof(eng, x):
    return eng.type_of_value(x)


def _h_is_none(eng, x):
    if isinstance(x, VNone):
        return VBool(True)
    if isinstance(x, VRef):
        return VBool(x.term == 0)
    return VBool(False)


SPEC_HELPERS = dict(pos_in=_h_pos_in, implies=_h_implies, iff=_h_iff, index_of=_h_index_of, order_of=_h_order_of, key_at=_h_key_at,
                    is_fresh=_h_is_fresh, same_elems=_h_same_elems, same_dict=_h_same_dict, typeof=_h_typeof, same=_h_same,
                    same_obj=_h_same, now=_h_now, was=_h_was, origin=_h_origin, by_lemma=_h_by_lemma, as_list=_h_as_list, is_ndarray=_h_is_ndarray,
                    is_list=_h_is_list, is_str_value=_h_is_str_value, iterable=_h_iterable, items_of=_h_items_of,
                    rec_has=_h_rec_has, rec_get=_h_rec_get, as_dict=_h_as_dict, file_log=_h_file_log, desc_writes_ok=_h_desc_writes_ok, rng_seed=_h_rng_seed, agg_min=_agg('min'), agg_max=_agg('max'),
                    agg_mean=_agg('mean'), agg_sum=_agg('sum'), agg_variance=_agg('variance'),
                    is_none=_h_is_none, is_module_global=_h_is_module_global, json_content=_h_json_content)
