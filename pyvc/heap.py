"""Heap operations of the symbolic executor (mixin): fields, lists, dicts, allocation, facts."""
import z3
from . import types as ty
from .values import (I, B, V, VInt, VBool, VNum, VStr, VCls, VNone, VRef, VTuple, VFunc, VExc,
                     State, Unsupported)


class PyRaise(Exception):
    def __init__(self, cls, implicit=False, site=None):
        self.cls = cls            # exception class name
        self.implicit = implicit
        self.site = site


class PathEnd(Exception):
    """Path cut (after loop step, or infeasible)."""


class HeapMixin:
    # ---------------------------------------------------------------- state arrays
    def arr(self, key, st=None):
        st = st or self.S
        if key not in st.h:
            base = self.ctx.base
            if key not in base:
                base[key] = self._mk_base(key)
            st.h[key] = base[key]
        return st.h[key]

    def _mk_base(self, key):
        c = self.ctx
        nm = '_'.join(str(x) for x in key) if isinstance(key, tuple) else str(key)
        nm = nm.replace(' ', '')
        k = key[0] if isinstance(key, tuple) else key
        if k == 'alloc':
            return z3.Int('alloc0')
        if k == 'f':
            t = self.field_type_by_name(key[1])
            return z3.Const(f'F_{key[1]}', z3.ArraySort(I, c.sort_of(t)))
        if k in ('llen', 'dclock', 'dsize'):
            return z3.Const(nm, z3.ArraySort(I, I))
        if k == 'lel':
            t = ty.slots(ty.parse(key[1]).elem)[key[2]]
            return z3.Const(nm, z3.ArraySort(I, z3.ArraySort(I, c.sort_of(t))))
        if k == 'dhas':
            return z3.Const(nm, z3.ArraySort(I, z3.ArraySort(I, B)))
        if k == 'dval':
            t = ty.slots(ty.parse(key[1]).v)[key[2]]
            return z3.Const(nm, z3.ArraySort(I, z3.ArraySort(I, c.sort_of(t))))
        if k == 'dstamp':
            return z3.Const(nm, z3.ArraySort(I, z3.ArraySort(I, I)))
        if k == 'g':
            return self.ghost_base(key[1])
        raise KeyError(key)

    def set_arr(self, key, term):
        if self.spec_mode:
            raise Unsupported('heap write in specification')
        self.S.h[key] = term

    # ---------------------------------------------------------------- facts / obligations
    def fact(self, t):
        """Unconditional truth about the model (heap typing, definitions of fresh symbols)."""
        if self.qvars and self.mentions(t, self.qvars):
            if self.qguards:
                t = z3.Implies(z3.And(self.qguards), t)
            t = z3.ForAll(list(self.qvars), t)
        elif self.qguards and not self.qvars:
            t = z3.Implies(z3.And(self.qguards), t)
        key = t.get_id()
        if key in self._fact_ids:
            return
        self._fact_ids.add(key)
        self.facts.append(t)

    def mentions(self, t, vars_):
        ids = {v.get_id() for v in vars_}
        seen = set()
        stack = [t]
        while stack:
            x = stack.pop()
            i = x.get_id()
            if i in seen:
                continue
            seen.add(i)
            if i in ids:
                return True
            if z3.is_quantifier(x):
                stack.append(x.body())
            elif z3.is_app(x):
                stack.extend(x.children())
        return False

    def fresh(self, name, sort=I):
        """Fresh symbol; inside a quantifier scope it is a Skolem function of the bound variables."""
        if not self.qvars:
            return self.ctx.fresh(name, sort)
        self.ctx.n += 1
        f = z3.Function(f'{name}!{self.ctx.n}', *([v.sort() for v in self.qvars] + [sort]))
        return f(*self.qvars)

    def assume(self, t):
        self.pc.append(t)

    # ---------------------------------------------------------------- value <-> slots
    def to_terms(self, v, t):
        """Flatten value v into the slot terms of type t."""
        if isinstance(t, ty.TTuple):
            if not isinstance(v, VTuple) or len(v.items) != len(t.items):
                raise Unsupported(f'tuple shape mismatch storing into {t}')
            out = []
            for it, tt in zip(v.items, t.items):
                out.extend(self.to_terms(it, tt))
            return out
        return [self.coerce(v, t)]

    def coerce(self, v, t):
        if isinstance(v, VNone):
            if t in (ty.BOOL, ty.NUM):
                raise Unsupported('None stored in scalar slot')
            return z3.IntVal(0)
        if t == ty.NUM:
            return self.num_term(v)
        if t == ty.BOOL:
            return self.truth(v)
        if isinstance(v, VBool):
            return z3.If(v.term, z3.IntVal(1), z3.IntVal(0))
        if isinstance(v, VInt) and t == ty.ANY:
            return self.box_num(v.term)
        if isinstance(v, VRef) and v.typ == ty.ANY and t in (ty.INT, ty.NUM):
            return self.arith_term(v)
        if isinstance(v, VNum):
            if t == ty.ANY:
                return self.box_num(v.term)
            if v.term.sort() == I:
                return v.term
            raise Unsupported('real stored in int slot')
        if isinstance(v, VTuple):
            if t == ty.ANY:
                return self.box_tuple(v)
            raise Unsupported(f'tuple stored in {t} slot')
        if isinstance(v, VFunc):
            if v.kind == 'class':
                return v.clsterm
            if getattr(v, 'term', None) is not None:
                return v.term
            raise Unsupported('function value stored in heap')
        if not hasattr(v, 'term'):
            raise Unsupported(f'cannot store {type(v).__name__}')
        return v.term

    def from_terms(self, terms, t, st=None):
        terms = list(terms)
        v = self._from(terms, t, st)
        return v

    def _from(self, terms, t, st):
        if isinstance(t, ty.TTuple):
            return VTuple([self._from(terms, it, st) for it in t.items])
        x = terms.pop(0)
        if t == ty.INT:
            return VInt(x)
        if t == ty.BOOL:
            return VBool(x)
        if t == ty.NUM:
            return VNum(x)
        if t == ty.STR:
            return VStr(x)
        if t == ty.CLS:
            return VCls(x, self.cls_name_of_term(x))
        r = VRef(x, t, st)
        return r

    def num_term(self, v):
        if isinstance(v, VBool):
            x = z3.If(v.term, z3.IntVal(1), z3.IntVal(0))
        elif isinstance(v, (VInt, VNum)):
            x = v.term
        else:
            raise Unsupported(f'numeric value expected, got {type(v).__name__}')
        if self.ctx.num == z3.RealSort() and x.sort() == I:
            return z3.ToReal(x)
        return x

    def box_num(self, term):
        f = z3.Function('box_num' if term.sort() == I else 'box_real', term.sort(), I)
        u = z3.Function('unbox_num', I, self.ctx.num) if term.sort() == self.ctx.num else \
            z3.Function('unbox_int', I, I)
        r = f(term)
        self.fact(z3.And(u(r) == term, r != 0))        # a boxed number is an object, never None
        return r

    def box_tuple(self, v):
        sorts = []
        terms = []
        for it in v.items:
            if isinstance(it, VTuple):
                raise Unsupported('nested tuple boxed')
            tm = self.coerce(it, ty.ANY) if not isinstance(it, (VInt, VStr, VCls, VRef, VNone)) else it.term
            terms.append(tm)
            sorts.append(tm.sort())
        f = z3.Function(f'box_tuple{len(terms)}', *sorts, I)
        r = f(*terms)
        self.fact(r != 0)
        for k, tm in enumerate(terms):
            g = z3.Function(f'tuple{len(terms)}_get{k}', I, tm.sort())
            self.fact(g(r) == tm)
        return r

    # ---------------------------------------------------------------- typing facts
    def typed(self, v, st=None):
        """Heap-typing assumption for a value just read from the heap (trusted: sidecar types)."""
        if isinstance(v, VRef) and isinstance(v.typ, ty.TRef) and v.typ.cls in ('_MetaAgent', 'type'):
            # class objects live at negative references (= class ids)
            self.fact(v.term < 0)
        elif isinstance(v, VRef) and v.typ != ty.ANY:
            alloc = self.arr('alloc', st)
            if getattr(v.typ, 'nullable', False):
                self.fact(z3.And(v.term >= 0, v.term < alloc))
            else:
                self.fact(z3.And(v.term > 0, v.term < alloc))
            if self.class_facts and isinstance(v.typ, ty.TRef) and v.typ.cls in self.prog.classes \
                    and self.cls_id(v.typ.cls) is not None:
                self.fact(z3.Implies(v.term != 0, self.subclass_term(self.class_of(v, st), v.typ.cls)))
        elif isinstance(v, VCls):
            self.fact(v.term < 0)
        elif isinstance(v, VTuple):
            for it in v.items:
                self.typed(it, st)
        return v

    # ---------------------------------------------------------------- fields
    def read_field(self, ref, name, t=None):
        st = ref.st
        t = t or self.field_type_by_name(name)
        a = self.arr(('f', name), st)
        v = self.from_terms([z3.Select(a, ref.term)], t, st)
        return self.typed(v, st)

    def write_field(self, ref, name, v):
        t = self.field_type_by_name(name)
        a = self.arr(('f', name))
        self.set_arr(('f', name), z3.Store(a, ref.term, self.coerce(v, t)))

    def class_of(self, ref, st=None):
        return z3.Select(self.arr(('f', '__class__'), st or getattr(ref, 'st', None)), ref.term)

    # ---------------------------------------------------------------- allocation
    def alloc(self, typ, cls=None):
        a = self.arr('alloc')
        r = self.fresh('new')
        self.fact(r == a)
        self.set_arr('alloc', a + 1)
        ref = VRef(r, typ)
        if cls is not None:
            ca = self.arr(('f', '__class__'))
            self.set_arr(('f', '__class__'), z3.Store(ca, r, cls))
        return ref

    def new_list(self, t, items=()):
        ref = self.alloc(t)
        k = t.key
        self.set_arr(('llen', k), z3.Store(self.arr(('llen', k)), ref.term, z3.IntVal(len(items))))
        sl = ty.slots(t.elem)
        for s in range(len(sl)):
            key = ('lel', k, s)
            inner = self.fresh('lit', z3.ArraySort(I, self.ctx.sort_of(sl[s])))
            for idx, it in enumerate(items):
                inner = z3.Store(inner, z3.IntVal(idx), self.to_terms(it, t.elem)[s])
            self.set_arr(key, z3.Store(self.arr(key), ref.term, inner))
        return ref

    def new_dict(self, t):
        ref = self.alloc(t)
        k = t.key
        self.set_arr(('dhas', k), z3.Store(self.arr(('dhas', k)), ref.term, z3.K(I, z3.BoolVal(False))))
        self.set_arr(('dsize', k), z3.Store(self.arr(('dsize', k)), ref.term, z3.IntVal(0)))
        self.set_arr(('dclock', k), z3.Store(self.arr(('dclock', k)), ref.term, z3.IntVal(0)))
        return ref

    # ---------------------------------------------------------------- lists
    def llen(self, ref):
        n = z3.Select(self.arr(('llen', ref.typ.key), ref.st), ref.term)
        self.fact(n >= 0)
        return n

    def lel_arrays(self, ref):
        k = ref.typ.key
        return [z3.Select(self.arr(('lel', k, s), ref.st), ref.term) for s in range(len(ty.slots(ref.typ.elem)))]

    def list_get(self, ref, idx):
        terms = [z3.Select(a, idx) for a in self.lel_arrays(ref)]
        return self.from_terms(terms, ref.typ.elem, ref.st)

    def list_get_typed(self, ref, idx):
        v = self.list_get(ref, idx)
        if True:
            n = self.llen(ref)
            save = self.qguards
            self.qguards = list(save) + [z3.And(idx >= 0, idx < n)]
            try:
                self.typed(v, ref.st)
            finally:
                self.qguards = save
        return v

    def list_set_all(self, ref, new_len, new_arrays):
        k = ref.typ.key
        self.set_arr(('llen', k), z3.Store(self.arr(('llen', k)), ref.term, new_len))
        for s, a in enumerate(new_arrays):
            key = ('lel', k, s)
            self.set_arr(key, z3.Store(self.arr(key), ref.term, a))

    def list_append(self, ref, v):
        n = self.llen(ref)
        terms = self.to_terms(v, ref.typ.elem)
        arrs = [z3.Store(a, n, x) for a, x in zip(self.lel_arrays(ref), terms)]
        self.list_set_all(ref, n + 1, arrs)

    def list_insert(self, ref, idx, v):
        """list.insert(idx, v) for 0 <= idx <= len (Python clamps; callers emit the range obligation)."""
        n = self.llen(ref)
        terms = self.to_terms(v, ref.typ.elem)
        olds = self.lel_arrays(ref)
        news = []
        j = z3.Int('j')
        for a, x in zip(olds, terms):
            na = self.fresh('ins', a.sort())
            self.fact(z3.Select(na, idx) == x)
            # two matching-friendly forms of the same shift law (patterns: new[j] and old[j])
            self.fact(z3.ForAll([j], z3.And(
                z3.Implies(z3.And(0 <= j, j < idx), z3.Select(na, j) == z3.Select(a, j)),
                z3.Implies(z3.And(idx < j, j <= n), z3.Select(na, j) == z3.Select(a, j - 1))),
                patterns=[z3.Select(na, j)]))
            self.fact(z3.ForAll([j], z3.And(
                z3.Implies(z3.And(0 <= j, j < idx), z3.Select(na, j) == z3.Select(a, j)),
                z3.Implies(z3.And(idx <= j, j < n), z3.Select(na, j + 1) == z3.Select(a, j))),
                patterns=[z3.Select(a, j)]))
            news.append(na)
        self.list_set_all(ref, n + 1, news)

    def list_index_witness(self, ref, v):
        """(b, w): b <=> v in list; w = first index holding v when b."""
        n = self.llen(ref)
        terms = self.to_terms(v, ref.typ.elem)
        arrs = self.lel_arrays(ref)
        # first-index witness as a *function* of (list contents, length, element): the same list state and
        # element denote the same witness wherever they are mentioned (callee postcondition vs. caller goal)
        sorts = [a.sort() for a in arrs] + [I] + [t.sort() for t in terms]
        tagk = ref.typ.key.replace('[', '_').replace(']', '').replace(',', '_').replace(':', '_')
        fb = z3.Function('contains_' + tagk, *sorts, B)
        fw = z3.Function('first_index_' + tagk, *sorts, I)
        b = fb(*arrs, n, *terms)
        w = fw(*arrs, n, *terms)
        j = z3.Int('j')

        def eq(i):
            return z3.And([z3.Select(a, i) == x for a, x in zip(arrs, terms)])
        self.fact(z3.Implies(b, z3.And(0 <= w, w < n, eq(w))))
        self.fact(z3.ForAll([j], z3.Implies(z3.And(0 <= j, j < z3.If(b, w, n)), z3.Not(eq(j)))))
        return b, w

    def list_remove_at(self, ref, w):
        n = self.llen(ref)
        olds = self.lel_arrays(ref)
        news = []
        j = z3.Int('j')
        for a in olds:
            na = self.fresh('rem', a.sort())
            self.fact(z3.ForAll([j], z3.And(
                z3.Implies(z3.And(0 <= j, j < w), z3.Select(na, j) == z3.Select(a, j)),
                z3.Implies(z3.And(w <= j, j < n - 1), z3.Select(na, j) == z3.Select(a, j + 1))),
                patterns=[z3.Select(na, j)]))
            self.fact(z3.ForAll([j], z3.And(
                z3.Implies(z3.And(0 <= j, j < w), z3.Select(na, j) == z3.Select(a, j)),
                z3.Implies(z3.And(w < j, j < n), z3.Select(na, j - 1) == z3.Select(a, j))),
                patterns=[z3.Select(a, j)]))
            news.append(na)
        self.list_set_all(ref, n - 1, news)

    def list_copy(self, ref, t=None):
        t = t or ref.typ
        new = self.alloc(ty.TList(t.elem))
        self.list_set_all(new, self.llen(ref), self.lel_arrays(ref))
        return new

    # ---------------------------------------------------------------- dicts
    def d_parts(self, ref):
        k = ref.typ.key
        st = ref.st
        has = z3.Select(self.arr(('dhas', k), st), ref.term)
        stamp = z3.Select(self.arr(('dstamp', k), st), ref.term)
        clock = z3.Select(self.arr(('dclock', k), st), ref.term)
        size = z3.Select(self.arr(('dsize', k), st), ref.term)
        vals = [z3.Select(self.arr(('dval', k, s), st), ref.term) for s in range(len(ty.slots(ref.typ.v)))]
        key = (ref.term.get_id(), has.get_id(), stamp.get_id(), clock.get_id(), size.get_id())
        if key not in self._wf_done:
            self._wf_done.add(key)
            kq, k2 = z3.Int('kq'), z3.Int('k2')
            self.fact(size >= 0)
            self.fact(z3.ForAll([kq], z3.Implies(z3.Select(has, kq),
                                                 z3.And(0 <= z3.Select(stamp, kq), z3.Select(stamp, kq) < clock))))
            self.fact(z3.ForAll([kq, k2], z3.Implies(z3.And(z3.Select(has, kq), z3.Select(has, k2), kq != k2),
                                                     z3.Select(stamp, kq) != z3.Select(stamp, k2))))
            # size = 0  <=>  no key   (needed for `len(d) == 0` tests; engine semantics of dict)
            self.fact(z3.Implies(size == 0, z3.ForAll([kq], z3.Not(z3.Select(has, kq)))))
            self.fact(z3.ForAll([kq], z3.Implies(z3.Select(has, kq), size >= 1)))
        return has, vals, stamp, clock, size

    def key_term(self, ref, kv):
        kt = ref.typ.k
        if isinstance(kv, VTuple):
            raise Unsupported('tuple dict key')
        return self.coerce(kv, kt)

    def dict_has(self, ref, kv):
        has = self.d_parts(ref)[0]
        return z3.Select(has, self.key_term(ref, kv))

    def dict_get(self, ref, kv):
        has, vals, *_ = self.d_parts(ref)
        k = self.key_term(ref, kv)
        v = self.from_terms([z3.Select(a, k) for a in vals], ref.typ.v, ref.st)
        if True:
            save = self.qguards
            self.qguards = list(save) + [z3.Select(has, k)]
            try:
                self.typed(v, ref.st)
            finally:
                self.qguards = save
        return v

    def dict_set(self, ref, kv, v):
        tk = ref.typ.key
        has, vals, stamp, clock, size = self.d_parts(ref)
        k = self.key_term(ref, kv)
        had = z3.Select(has, k)
        terms = self.to_terms(v, ref.typ.v)
        self.set_arr(('dhas', tk), z3.Store(self.arr(('dhas', tk)), ref.term, z3.Store(has, k, z3.BoolVal(True))))
        for s, (a, x) in enumerate(zip(vals, terms)):
            self.set_arr(('dval', tk, s), z3.Store(self.arr(('dval', tk, s)), ref.term, z3.Store(a, k, x)))
        self.set_arr(('dstamp', tk), z3.Store(self.arr(('dstamp', tk)), ref.term,
                                              z3.Store(stamp, k, z3.If(had, z3.Select(stamp, k), clock))))
        self.set_arr(('dclock', tk), z3.Store(self.arr(('dclock', tk)), ref.term, z3.If(had, clock, clock + 1)))
        self.set_arr(('dsize', tk), z3.Store(self.arr(('dsize', tk)), ref.term, z3.If(had, size, size + 1)))

    def dict_del(self, ref, kv):
        tk = ref.typ.key
        has, vals, stamp, clock, size = self.d_parts(ref)
        k = self.key_term(ref, kv)
        self.set_arr(('dhas', tk), z3.Store(self.arr(('dhas', tk)), ref.term, z3.Store(has, k, z3.BoolVal(False))))
        self.set_arr(('dsize', tk), z3.Store(self.arr(('dsize', tk)), ref.term, size - 1))

    def dict_enum(self, ref):
        """Enumeration of the keys of a dict state in insertion (stamp) order: (n, key_at, pos_of)."""
        has, vals, stamp, clock, size = self.d_parts(ref)
        key = ('enum', ref.term.get_id(), has.get_id(), stamp.get_id(), size.get_id())
        if key in self._enum:
            return self._enum[key]
        # enumeration as *functions of the dict state* (has, stamp, size): equal states enumerate equally
        tagk = ref.typ.key.replace('[', '_').replace(']', '').replace(',', '_').replace(':', '_')
        f_key = z3.Function('key_at_' + tagk, has.sort(), stamp.sort(), I, I, I)
        f_pos = z3.Function('pos_of_' + tagk, has.sort(), stamp.sort(), I, I, I)

        def key_at(ix):
            return f_key(has, stamp, size, ix)

        def pos_of(kx):
            return f_pos(has, stamp, size, kx)
        i, j, k = z3.Int('ei'), z3.Int('ej'), z3.Int('ek')
        self.fact(z3.ForAll([i], z3.Implies(z3.And(0 <= i, i < size),
                                            z3.And(z3.Select(has, key_at(i)), pos_of(key_at(i)) == i))))
        self.fact(z3.ForAll([k], z3.Implies(z3.Select(has, k),
                                            z3.And(0 <= pos_of(k), pos_of(k) < size, key_at(pos_of(k)) == k))))
        self.fact(z3.ForAll([i, j], z3.Implies(z3.And(0 <= i, i < j, j < size),
                                               z3.Select(stamp, key_at(i)) < z3.Select(stamp, key_at(j)))))
        self._enum[key] = (size, key_at, pos_of)
        return self._enum[key]
