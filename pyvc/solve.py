"""Back ends: z3 5.1 (python API, primary), cvc5 CLI and z3 4.8.12 CLI (unknowns / cross-check)."""
import multiprocessing as mp
import os
import subprocess
import tempfile
import time

Z3_OLD = '/usr/bin/z3'
CVC5 = '/usr/bin/cvc5'


def _solve_z3(args):
    idx, smt2, timeout_ms, seed, want_model = args
    import z3
    t0 = time.time()
    try:
        ctx = z3.Context()
        s = z3.Solver(ctx=ctx)
        s.set('timeout', timeout_ms)
        if seed:
            s.set('random_seed', seed)
            s.set('smt.random_seed', seed)
        s.from_string(smt2)
        r = s.check()
        res = str(r)
        model = None
        reason = None
        if res == 'sat' and want_model:
            try:
                m = s.model()
                model = {}
                for d in m.decls():
                    if d.arity() == 0:
                        v = m[d]
                        txt = v.sexpr() if hasattr(v, 'sexpr') else str(v)
                        if len(txt) < 400:
                            model[d.name()] = txt
            except Exception as ex:      # noqa
                model = {'_error': str(ex)}
        if res == 'unknown':
            reason = s.reason_unknown()
        return idx, res, time.time() - t0, model, reason
    except Exception as ex:
        return idx, 'error', time.time() - t0, None, repr(ex)


def _run_cli(cmd, smt2, timeout_s):
    with tempfile.NamedTemporaryFile('w', suffix='.smt2', delete=False, dir=os.environ.get('VERIF_SCRATCH')) as fh:
        fh.write(smt2)
        if '(check-sat)' not in smt2:
            fh.write('\n(check-sat)\n')
        path = fh.name
    t0 = time.time()
    try:
        p = subprocess.run(cmd + [path], capture_output=True, text=True, timeout=timeout_s + 5)
        out = (p.stdout or '').strip().splitlines()
        res = out[0].strip() if out else 'error'
        if res not in ('sat', 'unsat', 'unknown'):
            res = 'unknown' if 'timeout' in (p.stdout + p.stderr).lower() else 'error:' + (p.stdout + p.stderr)[:200]
    except subprocess.TimeoutExpired:
        res = 'unknown'
    finally:
        os.unlink(path)
    return res, time.time() - t0


def _solve_cvc5(args):
    idx, smt2, timeout_ms = args
    text = '(set-logic ALL)\n' + smt2
    res, t = _run_cli([CVC5, '--lang=smt2', f'--tlimit={timeout_ms}', '--arrays-exp'], text, timeout_ms / 1000)
    return idx, res, t


def _solve_z3old(args):
    idx, smt2, timeout_ms = args
    res, t = _run_cli([Z3_OLD, f'-T:{max(1, timeout_ms // 1000)}'], smt2, timeout_ms / 1000)
    return idx, res, t


_pool = None


def pool():
    global _pool
    if _pool is None:
        n = int(os.environ.get('VERIF_JOBS', '0')) or min(16, os.cpu_count() or 4)
        _pool = mp.get_context('fork').Pool(n)
    return _pool


def close():
    global _pool
    if _pool is not None:
        _pool.terminate()
        _pool = None


def discharge(obs, timeout_ms=20000, seed=0, cross=False, want_model=True, fallback=True):
    """Solve every obligation: result in ob.result ('unsat' = discharged), ob.backend, ob.time."""
    if not obs:
        return
    texts = [ob.smt2() for ob in obs]
    p = pool()
    # pass 1: short budget for everything (most obligations take milliseconds)
    first = min(timeout_ms, 5000)
    jobs = [(i, t, first, seed, want_model) for i, t in enumerate(texts)]
    for idx, res, dt, model, reason in p.imap_unordered(_solve_z3, jobs, chunksize=1):
        ob = obs[idx]
        ob.result, ob.time, ob.model, ob.backend = res, dt, model, 'z3-5.1.0'
        ob.reason = reason
    # pass 2: the slow ones again with the full budget as a small portfolio of random seeds (quantifier
    # instantiation order is seed dependent; any member answering unsat / sat decides)
    slow = [i for i, ob in enumerate(obs) if ob.result not in ('unsat', 'sat')]
    if slow and timeout_ms > first:
        seeds = [seed, seed + 101, seed + 202, seed + 303]
        jobs = [(i * 10 + k, texts[i], timeout_ms, sd, want_model) for i in slow for k, sd in enumerate(seeds)]
        for code, res, dt, model, reason in p.imap_unordered(_solve_z3, jobs, chunksize=1):
            ob = obs[code // 10]
            if res in ('unsat', 'sat') and ob.result not in ('unsat', 'sat'):
                ob.result, ob.model, ob.backend, ob.reason = res, model, 'z3-5.1.0', reason
                ob.time += dt
                ob.meta['portfolio_seed'] = seeds[code % 10]
            elif ob.result not in ('unsat', 'sat'):
                ob.reason = reason
    # unknowns -> cvc5, then z3 4.8.12
    pending = [i for i, ob in enumerate(obs) if ob.result not in ('unsat', 'sat')] if fallback else []
    if pending:
        for idx, res, dt in p.imap_unordered(_solve_cvc5, [(i, texts[i], timeout_ms) for i in pending]):
            ob = obs[idx]
            ob.time += dt
            if res in ('unsat', 'sat'):
                ob.result, ob.backend = res, 'cvc5-1.0.3'
        pending = [i for i in pending if obs[i].result not in ('unsat', 'sat')]
    if pending:
        for idx, res, dt in p.imap_unordered(_solve_z3old, [(i, texts[i], timeout_ms) for i in pending]):
            ob = obs[idx]
            ob.time += dt
            if res in ('unsat', 'sat'):
                ob.result, ob.backend = res, 'z3-4.8.12'
    if cross:
        todo = [i for i, ob in enumerate(obs) if ob.result == 'unsat']
        for idx, res, dt in p.imap_unordered(_solve_cvc5, [(i, texts[i], timeout_ms) for i in todo]):
            obs[idx].cross = dict(cvc5=res, cvc5_time=dt)
        seeds = [seed * 2 + 11, seed * 3 + 23]
        for sd in seeds:
            for idx, res, dt, model, reason in p.imap_unordered(
                    _solve_z3, [(i, texts[i], timeout_ms, sd, False) for i in todo], chunksize=1):
                c = getattr(obs[idx], 'cross', None) or {}
                c[f'z3_seed{sd}'] = res
                obs[idx].cross = c


def check_sat_quick(hyps, timeout_ms=3000):
    """Smoke: can `False` be derived from these hypotheses?  returns z3 result string for (hyps)."""
    import z3
    s = z3.Solver()
    s.set('timeout', timeout_ms)
    for h in hyps:
        s.add(h)
    return str(s.check())
