"""Symbolic values and the functional heap."""
import z3
from . import types as ty

I = z3.IntSort()
B = z3.BoolSort()
R = z3.RealSort()


class Unsupported(Exception):
    pass


class V:
    st = None


class VInt(V):
    def __init__(self, term):
        self.term = z3.IntVal(term) if isinstance(term, int) else term


class VBool(V):
    def __init__(self, term):
        self.term = z3.BoolVal(term) if isinstance(term, bool) else term


class VNum(V):
    def __init__(self, term):
        self.term = term


class VStr(V):
    def __init__(self, term, lit=None):
        self.term = term
        self.lit = lit


class VCls(V):
    def __init__(self, term, name=None):
        self.term = term
        self.name = name      # concrete class name when statically known


class VNone(V):
    term = z3.IntVal(0)


class VRef(V):
    def __init__(self, term, typ, st=None):
        self.term = term
        self.typ = typ        # TRef / TList / TDict / ANY
        self.st = st          # None = current state; else the State to read through (old)

    @property
    def nullable(self):
        return getattr(self.typ, 'nullable', False) or self.typ == ty.ANY


class VTuple(V):
    def __init__(self, items):
        self.items = list(items)


class VRecord(V):
    """Dict display with constant string keys (keyword bundle for library calls); not a heap dict."""

    def __init__(self, items):
        self.items = dict(items)


class VFunc(V):
    def __init__(*a, **kw):
        this, kind = a
        this.kind = kind      # method | function | closure | builtin | external | class | super | specfn
        this.__dict__.update(kw)


class VRange(V):
    def __init__(self, lo, hi):
        self.lo, self.hi = lo, hi


class VView(V):
    def __init__(self, kind, ref):
        self.kind, self.ref = kind, ref     # keys | items | values | enumerate


class VModule(V):
    def __init__(self, name):
        self.name = name


class VOld(V):
    def __init__(self, env, st):
        self.env, self.st = env, st


class VExc(V):
    def __init__(self, cls, args=()):
        self.cls = cls
        self.args = args


class VGhost(V):
    pass


class State:
    """Functional heap: name -> z3 term.  Copy-on-fork is a dict copy."""

    def __init__(self, h=None):
        self.h = dict(h) if h else {}

    def copy(self):
        return State(self.h)

    def get(self, key, mk):
        if key not in self.h:
            self.h[key] = mk()
        return self.h[key]


class Ctx:
    """Per-run naming + sorts."""

    def __init__(self, num_sort=I):
        self.num = num_sort
        self.n = 0
        self.str_ids = {}
        self.base = {}       # base (pre-state) arrays by key, shared by every state of a run

    def fresh(self, name, sort=I):
        self.n += 1
        return z3.Const(f'{name}!{self.n}', sort)

    def sort_of(self, t):
        if t == ty.BOOL:
            return B
        if t == ty.NUM:
            return self.num
        return I

    def strid(self, s):
        if s not in self.str_ids:
            self.str_ids[s] = 1000 + len(self.str_ids)
        return z3.IntVal(self.str_ids[s])
