import sys, time
sys.path.insert(0, '/verif')
from pyvc.frontend import Program
from pyvc.specs import REG
from pyvc import verify, solve
import contracts.all
import z3
prog = Program()
rep = verify.verify_function(prog, REG, sys.argv[1])
pat = sys.argv[2]
for ob in rep.obs:
    if pat in ob.name:
        open('/tmp/ob.smt2','w').write(ob.smt2())
        s = z3.Solver(); s.set('timeout', 10000)
        s.add(*ob.hyps); s.add(z3.Not(ob.goal))
        t=time.time(); r=s.check(); print(ob.name, r, s.reason_unknown() if str(r)=='unknown' else '', time.time()-t)
        print('GOAL', ob.goal)
        break
